#!/bin/bash
# Quick tier of every check under several VERIF_SEED values (hunting rare false alarms on the unchanged tree).
cd "$(dirname "$0")"
for seed in ${@:-1 2 3 4}; do
  echo "== VERIF_SEED=$seed"
  VERIF_SEED=$seed ./run_all.sh quick 2>&1 | grep -E "^C[0-9]+ rc" | grep -v "rc=0" | cut -c1-160
done
echo "== sweep done"
