#!/bin/bash
# Run every check's quick (or $1) tier sequentially; print one line per property.
tier=${1:-quick}
cd "$(dirname "$0")"
for i in $(seq -w 1 20); do
  p=C$i
  s=$(date +%s.%N)
  out=$(/venv/bin/python -m vf.check $p --tier $tier 2>&1); rc=$?
  e=$(date +%s.%N)
  printf "%s rc=%s %.1fs %s\n" $p $rc $(echo "$e - $s" | bc) "$(echo "$out" | grep -E '^(HELD|VIOLATION|INCONCLUSIVE)' | cut -c1-90)"
  echo "$out" | grep '^KNOWN-FINDING' | cut -c1-120
done
