"""C03 — power manager target stays inside usable system bounds, history-free.

Monitor: return values of the real Matryoshka.calculate_target_power / get_target_power
over many arrival histories of one live proposal set; oracle = safety envelope +
all histories agree + expiry equals a fresh object fed only the unexpired proposals.
"""

from __future__ import annotations

import itertools
import random
from typing import Any

from .. import pm

ID = "C03"
LEVEL = "exploration"
TECHNIQUE = ("runtime monitor: return values of the real Matryoshka over permuted/stale/expiring arrival histories; "
             "oracle = safety envelope + agreement across histories + expiry vs fresh object")
LEVEL_TEXT = ("held on N generated proposal sets, each driven through all n! arrival orders (n<=4; 24 sampled orders "
              "above) with stale-then-replaced proposals, None recomputations and bounds-only recomputations "
              "interleaved; every returned target is checked against the system envelope and against the other "
              "histories of the same live set. Exploration of histories, not a proof of order independence.")
LEVEL_NOTE = ("system bounds with lower <= 0 <= upper; exclusion zone contains 0; same-instant tie-break by source id "
              "is part of the contract; power equality to 1e-6 W"
              " Build phase: plus a pool-handle tier (proposals as BatteryPool.propose_* builds them) and an actor tier (expiry, bursts, PowerWrapper wiring) through C11's driver.")
RULE = ("random system bounds/exclusion zone x 1-6 proposals (priorities with ties, preferred power None/on a "
        "bound/inside the zone/outside the system bounds, bounds None/compatible/incompatible/inside the zone), "
        "arrival histories = permutations + stale replacements + None/bounds-only recomputations + expiry patterns. "
        "distinct = canonical case JSON; non-trivial = >=2 proposals and >=2 distinct histories executed")
REQUIRED_BUCKETS = ["pool-handle-tier(proposals as BatteryPool.propose_* builds them)", "pool-handle-tier:ev-pool-handles", "pool-handle-tier:pv-pool-handles", "two-handles-with-the-same-name-and-priority",
                    "conflicting-set", "conflict-free-set", "zone-straddling-bounds", "all-None-proposals",
                    "ties", "expiry-drops-some", "stale-replaced", "zone-present", "target-on-zone-edge",
                    "two-groups-share-actors", "max-age:60s", "max-age:other", "tiny-nonzero-preference",
                    "actor-tier(expiry through the power manager)"]
REQUIRED_COUNTERS = ["targets_observed", "histories_run", "expiry_checks", "bounds_shrink_and_recover_checks"]
ASSUMPTIONS = ["history-freeness is checked for the final live set of each history (latest proposal per actor)"]


def budget(tier: str) -> dict[str, Any]:
    if tier == "quick":
        return {"shards": 8, "cases": 4800}
    return {"shards": 32, "cases": 20000, "hashseeds": [0, 1, 2, 3, 4, 5, 6, 7]}


def gen(rng: Any, tier: str, i: int) -> Any:
    if rng.random() < 0.04:
        return _gen_handles(rng)
    if rng.random() < 0.06:
        # "proposals older than the maximum age stop counting" as the power manager wires it: the real
        # PowerManagingActor with regular and operating-point actors, long silences, clean-up timer (C11's driver/oracle)
        from . import c11

        case = c11.gen(rng, tier, len(c11.DOC_CASES) + i)
        for _ in range(40):
            if "events" in case and any(e["k"] == "advance" and e["dt"] > 60 for e in case["events"]):
                break
            case = c11.gen(rng, tier, len(c11.DOC_CASES) + i)
        if "events" not in case:
            return None
        case = dict(case, kind="actor-expiry")
        return case
    sys, excl = pm.gen_sys(rng)
    n = rng.choice([1, 2, 2, 3, 3, 4, 4, 5, 6])
    props = pm.gen_props(rng, n, distinct_prio=rng.random() < 0.4, compat_bias=rng.choice([0.2, 0.5, 0.9]))
    if rng.random() < 0.08:
        for p in props:
            p["pref"] = p["lo"] = p["hi"] = None
    if rng.random() < 0.15:
        # a preferred power that is not zero but tiny (left-overs of float arithmetic such as 1500.3-1200.1-300.2):
        # only exactly 0 W is exempt from the exclusion zone
        rng.choice(props)["pref"] = rng.choice([5e-10, -5e-10, 1e-12, 5.684341886080802e-14, 5e-324, -1e-9])
    # creation times for the expiry sub-check: the maximum proposal age is 60 s (what the actor uses) or another
    # value (fractional seconds, below one second, a day and more); all times are exact binary multiples of age/60
    age = rng.choice([60.0, 60.0, 7.5, 0.46875, 86400.0, 129600.0])
    sc = age / 60.0
    for p in props:
        p["t"] = float(rng.choice([0, 10, 39, 40, 41, 100])) * sc
    # a second component group served by the same algorithm object, with the same actors (same priority and
    # source id) but different ages / values: proposals of one group must never affect the other
    props2 = []
    for p in props:
        if rng.random() < 0.7:
            props2.append(dict(p, pref=rng.choice([None] + pm.VALS), t=float(rng.choice([0, 10, 39, 40, 41, 100])) * sc))
    return {"sys": sys, "excl": excl, "props": props, "props2": props2, "oseed": rng.randrange(1 << 30),
            "drop_at": float(rng.choice([60, 99, 100, 101, 160, 161])) * sc, "age": age}


def _target(m: Any, sb: Any) -> float:
    t = m.calculate_target_power(pm.CID, None, sb, True)
    return None if t is None else t.as_watts()


def _run_history(order: list[int], props: list[dict[str, Any]], sb: Any, hr: random.Random,
                 rec: Any, sys: list[float], excl: list[float]) -> float | None:
    m = pm.new_matryoshka()
    last = None
    for i in order:
        if hr.random() < 0.3:  # a stale version first, later replaced
            stale = dict(props[i], pref=hr.choice(pm.VALS), lo=hr.choice([None, -100.0, 0.0]),
                         hi=hr.choice([None, 100.0, 0.0]))
            m.calculate_target_power(pm.CID, pm.mk_proposal(stale), sb, hr.random() < 0.5)
            rec.bucket("stale-replaced")
        if hr.random() < 0.2:
            m.calculate_target_power(pm.CID, None, sb, hr.random() < 0.5)
        if hr.random() < 0.15:
            # bounds-only recomputation under *other* system bounds in between
            other = pm.mk_sysbounds([min(sys[0], -5.0) / 2, max(sys[1], 5.0) / 2], excl)
            m.calculate_target_power(pm.CID, None, other, False)
        r = m.calculate_target_power(pm.CID, pm.mk_proposal(props[i]), sb, hr.random() < 0.5)
        if r is not None:
            last = r.as_watts()
    # bounds-only updates the way the manager's bounds tracker issues them (no proposal, must_return_power=False): the
    # system bounds shrink and recover; the stored target must then be the one of the current bounds again
    if hr.random() < 0.5:
        shrunk = pm.mk_sysbounds([min(sys[0], -5.0) / 4, max(sys[1], 5.0) / 4], excl)
        m.calculate_target_power(pm.CID, None, shrunk, False)
        m.calculate_target_power(pm.CID, None, sb, False)
        stored = m.get_target_power(pm.CID)
        fresh_t = m.calculate_target_power(pm.CID, None, sb, True)
        rec.count("bounds_shrink_and_recover_checks")
        if (stored is None) != (fresh_t is None) or (stored is not None and not abs(stored.as_watts() - fresh_t.as_watts()) <= 1e-6):
            rec.violation("stored-target-depends-on-earlier-system-bounds",
                          {"stored_after_bounds_recovered": None if stored is None else stored.as_watts(),
                           "recomputed": None if fresh_t is None else fresh_t.as_watts(), "sys": sys, "excl": excl})
    # the externally visible target of the live set
    t = m.calculate_target_power(pm.CID, None, sb, True)
    got = m.get_target_power(pm.CID)
    if t is None or got is None or t != got:
        rec.violation("get_target_power-disagrees", {"returned": repr(t), "stored": repr(got)})
    return None if t is None else t.as_watts()


def _gen_handles(rng: Any) -> dict[str, Any]:
    """Proposals as actors really make them: through BatteryPool handles (name, priority) and propose_*()."""
    nh = rng.choice([2, 2, 3, 4])
    handles = [[rng.choice([None, "actor", "actor", "other"]), rng.choice([0, 1, 1, 5])] for _ in range(nh)]
    sys, excl = pm.gen_sys(rng)
    span = max(abs(sys[0]), abs(sys[1]), 10.0)
    steps = []
    for _ in range(rng.randint(2, 8)):
        h = rng.randrange(nh)
        meth = rng.choice(["power", "charge", "discharge"])
        lo = hi = None
        if meth == "power":
            w = rng.choice([None, 0.0, round(rng.uniform(-1.2, 1.2) * span, 1)])
            if rng.random() < 0.4:
                lo, hi = sorted([round(rng.uniform(-1.0, 0.2) * span, 1), round(rng.uniform(-0.2, 1.0) * span, 1)])
                if w is not None:
                    w = min(max(w, lo), hi)  # (a preferred power outside the proposal's own bounds is refused)
        else:
            w = rng.choice([None, 0.0, round(rng.uniform(0.0, 1.2) * span, 1)])
        steps.append([h, meth, w, lo, hi, rng.choice([0.0, 0.0, 1.0, 20.0, 30.5, 45.0, 61.0])])
    pool = rng.choice(["battery", "battery", "battery", "ev", "pv"])
    if pool != "battery":
        # the handles of the other pools (EVChargerPool / PVPool.propose_power: charge only / production only)
        sgn = 1.0 if pool == "ev" else -1.0
        for st in steps:
            st[1] = "power"
            if st[2] is not None:
                st[2] = sgn * abs(st[2])
                if st[3] is not None:
                    st[2] = min(max(st[2], st[3]), st[4])
                    if st[2] * sgn < 0:
                        st[2] = 0.0
            if rng.random() < 0.25:
                st[2] = None  # the actor withdraws its preference (bounds, if any, stay)
                if rng.random() < 0.5:
                    st[3] = st[4] = None  # ... or its whole proposal
    return {"kind": "pool-handles", "pool": pool, "handles": handles, "sys": sys, "excl": excl, "steps": steps,
            "final_wait": rng.choice([0.0, 0.0, 30.0, 61.0, 100.0])}


async def _drive_handles(case: dict[str, Any], out: dict[str, Any]) -> None:
    import asyncio
    from datetime import timedelta
    from unittest.mock import MagicMock

    from frequenz.channels import Broadcast
    from frequenz.quantities import Power

    from frequenz.sdk import timeseries
    from frequenz.sdk._internal._channels import ChannelRegistry
    from frequenz.sdk.timeseries.battery_pool import BatteryPool
    from frequenz.sdk.timeseries.battery_pool._battery_pool_reference_store import BatteryPoolReferenceStore

    from .. import fakes

    loop = asyncio.get_event_loop()
    comps, conns = fakes.battery_topology([([11], [111]), ([12], [112])])
    fakes.install_connection_manager(comps, conns)
    status_ch = Broadcast(name="battery-status", resend_latest=True)
    pm_ch = Broadcast(name="pm-requests")
    rx = pm_ch.new_receiver(limit=100)
    store = BatteryPoolReferenceStore(
        channel_registry=ChannelRegistry(name="vf"), resampler_subscription_sender=Broadcast(name="rs").new_sender(),
        batteries_status_receiver=status_ch.new_receiver(limit=1), power_manager_requests_sender=pm_ch.new_sender(),
        power_manager_bounds_subscription_sender=Broadcast(name="pb").new_sender(),
        power_distribution_results_fetcher=MagicMock(), min_update_interval=timedelta(seconds=0.2), batteries_id={11, 12})
    pools = [BatteryPool(pool_ref_store=store, name=n, priority=p, set_operating_point=False) for n, p in case["handles"]]
    ids = frozenset({11, 12})
    other_store: Any = None
    if case.get("pool") in ("ev", "pv"):
        from frequenz.client.microgrid import Component, ComponentCategory, Connection, InverterType

        if case["pool"] == "ev":
            from frequenz.sdk.timeseries.ev_charger_pool import EVChargerPool as Pool
            from frequenz.sdk.timeseries.ev_charger_pool._ev_charger_pool_reference_store import \
                EVChargerPoolReferenceStore as Store
            ids = frozenset({21, 22})
            extra = [Component(i, ComponentCategory.EV_CHARGER) for i in sorted(ids)]
        else:
            from frequenz.sdk.timeseries.pv_pool import PVPool as Pool
            from frequenz.sdk.timeseries.pv_pool._pv_pool_reference_store import PVPoolReferenceStore as Store
            ids = frozenset({31, 32})
            extra = [Component(i, ComponentCategory.INVERTER, InverterType.SOLAR) for i in sorted(ids)]
        fakes.install_connection_manager(comps + extra, conns + [Connection(2, i) for i in sorted(ids)])
        other_store = Store(channel_registry=ChannelRegistry(name="vf2"), resampler_subscription_sender=Broadcast(name="rs2").new_sender(),
                            status_receiver=Broadcast(name="st2").new_receiver(limit=1), power_manager_requests_sender=pm_ch.new_sender(),
                            power_manager_bounds_subs_sender=Broadcast(name="pb2").new_sender(),
                            power_distribution_results_fetcher=MagicMock(), component_ids=set(ids))
        pools = [Pool(pool_ref_store=other_store, name=n, priority=p, set_operating_point=False) for n, p in case["handles"]]
    sb = pm.mk_sysbounds(case["sys"], case["excl"])
    alg = pm.new_matryoshka(60.0)
    log = out["log"]
    for h, meth, w, lo, hi, dt in case["steps"]:
        pw = None if w is None else Power.from_watts(w)
        t_call = loop.time()
        if meth == "power":
            await pools[h].propose_power(pw, bounds=timeseries.Bounds(None if lo is None else Power.from_watts(lo),
                                                                       None if hi is None else Power.from_watts(hi)))
        else:
            await getattr(pools[h], "propose_" + meth)(pw)
        got = []
        while rx._q:  # noqa: SLF001
            got.append(rx.consume())
        log.append({"h": h, "t": t_call, "proposals": got})
        for pr in got:
            alg.calculate_target_power(pr.component_ids, pr, sb, True)
        if dt:
            await asyncio.sleep(dt)
        alg.drop_old_proposals(loop.time())
    if case["final_wait"]:
        await asyncio.sleep(case["final_wait"])
    alg.drop_old_proposals(loop.time())
    out["t_end"] = loop.time()
    out["ids"] = ids
    t = alg.calculate_target_power(out["ids"], None, sb, True) if out["ids"] in alg._component_buckets else None  # noqa: SLF001
    out["target"] = None if t is None else t.as_watts()
    await store.stop()
    if other_store is not None:
        await other_store.stop()


def _check_handles(case: dict[str, Any], rec: Any) -> None:
    from ..vloop import LoopMonitor, run_virtual

    rec.bucket("pool-handle-tier(proposals as BatteryPool.propose_* builds them)")
    if case.get("pool") in ("ev", "pv"):
        rec.bucket("pool-handle-tier:" + case["pool"] + "-pool-handles")
    out: dict[str, Any] = {"log": []}
    run_virtual(lambda: _drive_handles(case, out), monitor=LoopMonitor())
    handles = case["handles"]
    if len({(n, p) for n, p in handles if n is not None}) < len([1 for n, _ in handles if n is not None]):
        rec.bucket("two-handles-with-the-same-name-and-priority")
    # (a) one slot per actor: what identifies a live proposal, (priority, source_id), is the same for all proposals
    # of a handle and different between handles
    key_of: dict[int, Any] = {}
    for e in out["log"]:
        rec.count("propose_calls_observed")
        if len(e["proposals"]) != 1:
            rec.violation("propose-call-did-not-send-exactly-one-proposal", {"handle": e["h"], "sent": len(e["proposals"])})
            return
        pr = e["proposals"][0]
        k = (pr.priority, pr.source_id)
        if key_of.setdefault(e["h"], k) != k:
            rec.violation("actor-changes-identity-between-proposals", {"handle": e["h"], "keys": [key_of[e["h"]], k]})
            return
        if pr.priority != handles[e["h"]][1] or pr.component_ids != out["ids"]:
            rec.violation("proposal-carries-another-priority-or-component-set",
                          {"handle": handles[e["h"]], "priority": pr.priority, "components": sorted(pr.component_ids)})
            return
    owners: dict[Any, int] = {}
    for h, k in key_of.items():
        if owners.setdefault(k, h) != h:
            rec.violation("two-actors-share-one-live-proposal-slot",
                          {"handles": [handles[owners[k]], handles[h]], "priority_and_source_id": list(k)})
            return
    # (b) the target at the end is the one of the latest proposal per handle that is at most 60 s old *by the loop
    # clock at the call* (the harness's own reading), computed by a fresh algorithm object from proposals the harness
    # builds itself from the call arguments
    sb = pm.mk_sysbounds(case["sys"], case["excl"])
    latest: dict[int, Any] = {}
    for e, st in zip(out["log"], case["steps"]):
        latest[e["h"]] = (e["t"], st)
    fresh = pm.new_matryoshka(60.0)
    fresh.calculate_target_power(out["ids"], pm.mk_proposal({"src": "zz-none", "prio": -99, "pref": None, "lo": None,
                                                             "hi": None, "t": out["t_end"]}, cid=out["ids"]), sb, True)
    live = []
    for h, (t, st) in sorted(latest.items()):
        if out["t_end"] - t > 60.0:
            continue
        _, meth, w, lo, hi, _dt = st
        pref = w if meth != "discharge" or w is None else -w
        live.append(h)
        fresh.calculate_target_power(out["ids"], pm.mk_proposal(
            {"src": key_of[h][1], "prio": handles[h][1], "pref": pref, "lo": lo, "hi": hi, "t": t}, cid=out["ids"]), sb, True)
    if len(live) < len(latest):
        rec.bucket("pool-handle-proposal-expired")
    exp = fresh.calculate_target_power(out["ids"], None, sb, True)
    exp_w = None if exp is None else exp.as_watts()
    got = out["target"]
    rec.count("handle_histories_checked")
    if not live and got is None:
        pass
    elif got is None or exp_w is None or not abs(got - exp_w) <= 1e-6:
        rec.violation("target-differs-from-the-live-proposals-of-the-handles",
                      {"handles": handles, "steps": case["steps"], "live_handles": live, "t_end": out["t_end"],
                       "target": got, "fresh_with_live_only": exp_w,
                       "creation_times": [[e["t"], e["proposals"][0].creation_time] for e in out["log"]]})
    rec.nontrivial(len(key_of) >= 2)
    rec.observed({"handles": handles, "target": got, "live": live})


def check(case: dict[str, Any], rec: Any) -> None:
    if case.get("kind") == "pool-handles":
        _check_handles(case, rec)
        return
    if case.get("kind") == "actor-expiry":
        from . import c11

        rec.bucket("actor-tier(expiry through the power manager)")
        c11.check(case, rec)
        return
    sys, excl, props = case["sys"], case["excl"], case["props"]
    sl, su = sys
    el, eu = excl
    sb = pm.mk_sysbounds(sys, excl)
    n = len(props)
    hr = random.Random(case["oseed"])
    zone = el != 0 or eu != 0
    if zone:
        rec.bucket("zone-present")
    ref = pm.reference(props, sl, su, el, eu)
    rec.bucket("conflict-free-set" if ref is not None else "conflicting-set")
    if all(p["pref"] is None and p["lo"] is None and p["hi"] is None for p in props):
        rec.bucket("all-None-proposals")
    if any(p["pref"] is not None and 0 < abs(p["pref"]) < 1e-6 for p in props):
        rec.bucket("tiny-nonzero-preference")
    if len({p["prio"] for p in props}) < n:
        rec.bucket("ties")
    if zone and any((p["lo"] is not None and p["hi"] is not None and p["lo"] <= el and p["hi"] >= eu and
                     (p["lo"] < el or p["hi"] > eu)) for p in props):
        rec.bucket("zone-straddling-bounds")

    if n <= 4:
        orders = [list(o) for o in itertools.permutations(range(n))]
    else:
        orders = [hr.sample(range(n), n) for _ in range(24)]
    results: dict[float, list[int]] = {}
    for order in orders:
        t = _run_history(order, props, sb, hr, rec, sys, excl)
        rec.count("histories_run")
        if t is None:
            rec.violation("no-target-returned", {"order": order})
            continue
        rec.count("targets_observed")
        results.setdefault(round(t, 6), order)
        # safety envelope (every proposal multiset, conflicting or not)
        w = {"target": t, "order": order, "sys": sys, "excl": excl}
        if not (sl - 1e-6 <= t <= su + 1e-6):
            rec.violation("target-outside-system-inclusion", w)
        if t != 0.0 and el + 1e-6 < t < eu - 1e-6:
            rec.violation("target-inside-exclusion-zone", w)
        if t != 0.0 and abs(t) < 1e-6 and zone:
            rec.bucket("tiny-nonzero-target-outside-zone")
        if zone and (abs(t - el) < 1e-9 or abs(t - eu) < 1e-9) and abs(t) > 1e-9:
            rec.bucket("target-on-zone-edge")
    if len(results) > 1:
        rec.violation("history-dependent-target", {"targets_by_first_order": {str(k): v for k, v in results.items()}})
    rec.nontrivial(n >= 2 and len(orders) >= 2)

    # expiry: proposals with (drop_at - t) > 60 stop counting
    drop_at = case["drop_at"]
    AGE = case.get("age", 60.0)
    rec.bucket("max-age:60s" if AGE == 60.0 else "max-age:other")
    m = pm.new_matryoshka(AGE)
    CID2 = frozenset({7})
    props2 = case.get("props2", [])
    order2 = list(props2)
    hr.shuffle(order2)
    for p in props:
        m.calculate_target_power(pm.CID, pm.mk_proposal(p), sb, True)
        if order2 and hr.random() < 0.6:
            q = order2.pop()
            m.calculate_target_power(CID2, pm.mk_proposal(q, cid=CID2), sb, True)
    for q in order2:
        m.calculate_target_power(CID2, pm.mk_proposal(q, cid=CID2), sb, True)
    m.drop_old_proposals(drop_at)
    after = _target(m, sb)
    if props2:
        rec.bucket("two-groups-share-actors")
        t2 = m.calculate_target_power(CID2, None, sb, True)
        live2 = [q for q in props2 if not (drop_at - q["t"]) > AGE]
        fresh2 = pm.new_matryoshka(AGE)
        fresh2.calculate_target_power(CID2, pm.mk_proposal({"src": "zz-none", "prio": -99, "pref": None, "lo": None,
                                                            "hi": None, "t": drop_at}, cid=CID2), sb, True)
        for q in live2:
            fresh2.calculate_target_power(CID2, pm.mk_proposal(q, cid=CID2), sb, True)
        e2 = fresh2.calculate_target_power(CID2, None, sb, True)
        rec.count("expiry_checks")
        if t2 is None or e2 is None or not abs(t2.as_watts() - e2.as_watts()) <= 1e-6:
            rec.violation("second-group-target-depends-on-other-groups-proposals-or-expiry",
                          {"after_drop": None if t2 is None else t2.as_watts(),
                           "fresh_with_live_only": None if e2 is None else e2.as_watts(), "drop_at": drop_at,
                           "group2_live": [q["src"] for q in live2], "group2": props2})
    live = [p for p in props if not (drop_at - p["t"]) > AGE]
    if len(live) < n:
        rec.bucket("expiry-drops-some")
    fresh = pm.new_matryoshka(AGE)
    # the component bucket must exist for a target to be computed at all
    fresh.calculate_target_power(pm.CID, pm.mk_proposal({"src": "zz-none", "prio": -99, "pref": None, "lo": None,
                                                         "hi": None, "t": drop_at}), sb, True)
    for p in live:
        fresh.calculate_target_power(pm.CID, pm.mk_proposal(p), sb, True)
    expect = _target(fresh, sb)
    rec.count("expiry_checks")
    if after is None or expect is None or not abs(after - expect) <= 1e-6:
        rec.violation("expired-proposals-still-count-or-live-dropped",
                      {"after_drop": after, "fresh_with_live_only": expect, "drop_at": drop_at,
                       "live": [p["src"] for p in live]})
    rec.observed({"targets": sorted(results), "histories": len(orders), "conflict_free": ref is not None,
                  "after_expiry": after})


FINDINGS: dict[str, Any] = {}

LEVEL_NOTE += ' Rounds 13-14: the handle tier also over EVChargerPool and PVPool handles.'
