"""C18 — pool SoC and capacity are the documented aggregates of working batteries.

Monitor: return values of the real SoCCalculator.calculate / CapacityCalculator.calculate on
generated metric data and working sets; oracle = the documented formulas evaluated exactly with
Fractions, plus metamorphic relations (range, monotonicity in every SoC, scale invariance).
"""

from __future__ import annotations

import math
from fractions import Fraction as F
from typing import Any

ID = "C18"
LEVEL = "exploration"
TECHNIQUE = ("runtime monitor: return values of the real SoC/Capacity calculators vs an exact rational evaluation of "
             "the documented formulas, plus metamorphic re-executions (raise one SoC, scale all capacities) on the "
             "same data")
LEVEL_TEXT = ("held on N generated data sets (1-6 batteries, random working subsets, metrics missing individually, SoC "
              "inside/outside/on its limits, equal limits, zero capacity, zero total): value vs exact reference, range "
              "[0,100], None iff no battery qualifies, monotone in every battery's SoC, invariant under a common "
              "capacity factor; capacity == sum of usable capacities. Exploration over inputs.")
LEVEL_NOTE = ("NaN metrics never reach the calculators (the fetcher drops them), so 'missing or NaN' is modelled as an "
              "absent metric; scale invariance is checked for totals >= 1 Wh because the code legitimately treats "
              "totals below 1e-9 as zero; relative tolerance 1e-9")
RULE = ("seeded data sets; distinct = canonical case JSON; non-trivial = >=2 qualifying working batteries with "
        "different SoC or different weights")
REQUIRED_BUCKETS = ["none-result", "non-working-excluded", "metric-missing", "soc-outside-limits", "equal-limits",
                    "zero-capacity", "zero-total-weight", "soc-on-limit", "monotonicity-checked",
                    "scale-invariance-checked"]
REQUIRED_COUNTERS = ["soc_values_compared", "capacity_values_compared"]
ASSUMPTIONS = ["metric data objects built directly (ComponentMetricsData); timestamps irrelevant"]


def budget(tier: str) -> dict[str, Any]:
    if tier == "quick":
        return {"shards": 8, "cases": 2500}
    return {"shards": 32, "cases": 60000, "hashseeds": [0, 1, 2, 3]}


def gen(rng: Any, tier: str, i: int) -> Any:
    nb = rng.randint(1, 6)
    bats = {}
    for b in range(1, nb + 1):
        if rng.random() < 0.08:
            continue  # no data at all for this battery
        lo = rng.choice([0.0, 5.0, 10.0, 20.0, round(rng.uniform(0, 40), 3)])
        hi = rng.choice([lo, 80.0, 90.0, 100.0, round(rng.uniform(lo, 100), 3)])
        soc = rng.choice([lo, hi, round(rng.uniform(lo, hi), 4) if hi > lo else lo, round(rng.uniform(0, 100), 4),
                          lo - 5, hi + 5])
        d: dict[str, Any] = {"cap": rng.choice([0.0, 1000.0, 5000.0, 98000.0, round(rng.uniform(1, 1e5), 2)]),
                             "lo": lo, "hi": hi, "soc": soc}
        for k in list(d):
            if rng.random() < 0.05:
                del d[k]
        bats[str(b)] = d
    working = [b for b in range(1, nb + 1) if rng.random() < 0.75]
    return {"n": nb, "bats": bats, "working": working, "scale": rng.choice([1e-3, 0.5, 3.0, 1e3]),
            "bump": rng.choice([0.001, 1.0, 10.0, 50.0])}


def _mk(bats: dict[str, Any]) -> dict[int, Any]:
    from frequenz.client.microgrid import ComponentMetricId as M

    from frequenz.sdk.timeseries.battery_pool._component_metrics import ComponentMetricsData
    from ..batdata import TS

    out = {}
    for b, d in bats.items():
        m = {}
        if "cap" in d:
            m[M.CAPACITY] = d["cap"]
        if "lo" in d:
            m[M.SOC_LOWER_BOUND] = d["lo"]
        if "hi" in d:
            m[M.SOC_UPPER_BOUND] = d["hi"]
        if "soc" in d:
            m[M.SOC] = d["soc"]
        out[int(b)] = ComponentMetricsData(int(b), TS, m)
    return out


def _ref_soc(bats: dict[str, Any], working: list[int]) -> tuple[int, F, F]:
    used, tot, n = F(0), F(0), 0
    for b in working:
        d = bats.get(str(b))
        if d is None or any(k not in d for k in ("cap", "lo", "hi", "soc")):
            continue
        n += 1
        cap, lo, hi, soc = (F(d[k]) for k in ("cap", "lo", "hi", "soc"))
        w = cap * (hi - lo)
        if hi == lo:
            sc = F(0) if soc < lo else F(100)
        else:
            sc = min(max((soc - lo) / (hi - lo) * 100, F(0)), F(100))
        used += w * sc
        tot += w
    return n, used, tot


def _soc(bats: dict[str, Any], working: list[int]) -> float | None:
    from frequenz.sdk.timeseries.battery_pool._metric_calculator import SoCCalculator

    calc = SoCCalculator(set(range(1, 8)))
    s = calc.calculate(_mk(bats), set(working))
    return None if s.value is None else s.value.as_percent()


def check(case: dict[str, Any], rec: Any) -> None:
    from frequenz.sdk.timeseries.battery_pool._metric_calculator import CapacityCalculator

    bats, working = case["bats"], case["working"]
    if any(b not in working for b in range(1, case["n"] + 1)):
        rec.bucket("non-working-excluded")
    for d in bats.values():
        if len(d) < 4:
            rec.bucket("metric-missing")
        if all(k in d for k in ("lo", "hi", "soc")):
            if d["soc"] < d["lo"] or d["soc"] > d["hi"]:
                rec.bucket("soc-outside-limits")
            if d["soc"] in (d["lo"], d["hi"]):
                rec.bucket("soc-on-limit")
            if d["lo"] == d["hi"]:
                rec.bucket("equal-limits")
        if d.get("cap") == 0:
            rec.bucket("zero-capacity")
    n, used, tot = _ref_soc(bats, working)
    got = _soc(bats, working)
    rec.count("soc_values_compared")
    w = {"bats": bats, "working": working, "got": got, "qualifying": n,
         "reference": None if n == 0 else (float(used / tot) if tot > 0 else "total weight 0")}
    if (got is None) != (n == 0):
        rec.violation("None-iff-no-battery-qualifies", w)
        return
    if got is None:
        rec.bucket("none-result")
    else:
        if not (0.0 <= got <= 100.0):
            rec.violation("soc-outside-[0,100]", w)
        if tot > 0 and tot >= F(1, 10 ** 8):
            exp = used / tot
            if abs(F(got) - exp) > F(1, 10 ** 9) * max(F(1), abs(exp)):
                rec.violation("soc-differs-from-documented-weighted-mean", w)
        if tot == 0:
            rec.bucket("zero-total-weight")
    # capacity
    calc = CapacityCalculator(set(range(1, 8)))
    cs = calc.calculate(_mk(bats), set(working))
    cq = [bats[str(b)] for b in working if str(b) in bats and all(k in bats[str(b)] for k in ("cap", "lo", "hi"))]
    rec.count("capacity_values_compared")
    if (cs.value is None) != (len(cq) == 0):
        rec.violation("capacity-None-iff-no-battery-qualifies", {**w, "capacity": repr(cs.value)})
    elif cs.value is not None:
        exp_c = sum(F(d["cap"]) * (F(d["hi"]) - F(d["lo"])) / 100 for d in cq)
        if abs(F(cs.value.as_watt_hours()) - exp_c) > F(1, 10 ** 9) * max(F(1), abs(exp_c)):
            rec.violation("capacity-differs-from-sum-of-usable-capacities",
                          {**w, "capacity": cs.value.as_watt_hours(), "expected": float(exp_c)})
    # metamorphic: raising one battery's SoC never lowers the result
    if got is not None:
        for b in working:
            d = bats.get(str(b))
            if d is None or "soc" not in d:
                continue
            b2 = {k: dict(v) for k, v in bats.items()}
            b2[str(b)]["soc"] = d["soc"] + case["bump"]
            g2 = _soc(b2, working)
            rec.bucket("monotonicity-checked")
            if g2 is None or g2 < got - 1e-9:
                rec.violation("soc-decreases-when-a-battery-soc-increases", {**w, "battery": b, "bump": case["bump"],
                                                                              "after": g2})
        # metamorphic: a common capacity factor changes nothing (totals >= 1 Wh on both sides)
        c = case["scale"]
        if tot >= 100 and tot * F(c) >= 100:
            b3 = {k: dict(v) for k, v in bats.items()}
            for d in b3.values():
                if "cap" in d:
                    d["cap"] = d["cap"] * c
            g3 = _soc(b3, working)
            rec.bucket("scale-invariance-checked")
            if g3 is None or abs(g3 - got) > 1e-9 * max(1.0, got):
                rec.violation("soc-changes-under-common-capacity-factor", {**w, "factor": c, "after": g3})
    rec.nontrivial(n >= 2)
    rec.observed({"soc": got, "reference": w["reference"], "capacity": None if cs.value is None else cs.value.as_watt_hours()})


FINDINGS: dict[str, Any] = {}
