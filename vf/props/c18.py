"""C18 — pool SoC and capacity are the documented aggregates of working batteries.

Monitor: return values of the real SoCCalculator.calculate / CapacityCalculator.calculate on
generated metric data and working sets; oracle = the documented formulas evaluated exactly with
Fractions, plus metamorphic relations (range, monotonicity in every SoC, scale invariance).
"""

from __future__ import annotations

import math
from fractions import Fraction as F
from typing import Any

ID = "C18"
LEVEL = "exploration"
TECHNIQUE = ("runtime monitor: return values of the real SoC/Capacity calculators vs an exact rational evaluation of "
             "the documented formulas, plus metamorphic re-executions (raise one SoC, scale all capacities) on the "
             "same data")
LEVEL_TEXT = ("held on N generated data sets (1-6 batteries, random working subsets, metrics missing individually, SoC "
              "inside/outside/on its limits, equal limits, zero capacity, zero total): value vs exact reference, range "
              "[0,100], None iff no battery qualifies, monotone in every battery's SoC, invariant under a common "
              "capacity factor; capacity == sum of usable capacities. Exploration over inputs.")
LEVEL_NOTE = ("NaN metrics never reach the calculators (the fetcher drops them), so 'missing or NaN' is modelled as an "
              "absent metric; scale invariance is checked for totals >= 1 Wh because the code legitimately treats "
              "totals below 1e-9 as zero; relative tolerance 1e-9")
RULE = ("seeded data sets; distinct = canonical case JSON; non-trivial = >=2 qualifying working batteries with "
        "different SoC or different weights")
REQUIRED_BUCKETS = ["none-result", "non-working-excluded", "metric-missing", "soc-outside-limits", "equal-limits",
                    "zero-capacity", "zero-total-weight", "soc-on-limit", "monotonicity-checked",
                    "scale-invariance-checked", "integration:cache-dropped-on-stop-working",
                    "integration:nan-metric-dropped", "integration:silent-battery-timed-out", "integration:battery-silent-a-second-time-at-the-checkpoint",
                    "integration:soc-first-accessed-after-status-known",
                    "integration:device-clock-differs-from-local-clock"]
REQUIRED_COUNTERS = ["soc_values_compared", "capacity_values_compared", "integration_checkpoints"]
ASSUMPTIONS = ["metric data objects built directly (ComponentMetricsData); timestamps irrelevant"]


def budget(tier: str) -> dict[str, Any]:
    if tier == "quick":
        return {"shards": 8, "cases": 12500}
    return {"shards": 32, "cases": 60000, "hashseeds": [0, 1, 2, 3]}


def gen(rng: Any, tier: str, i: int) -> Any:
    nb = rng.randint(1, 6)
    bats = {}
    for b in range(1, nb + 1):
        if rng.random() < 0.08:
            continue  # no data at all for this battery
        lo = rng.choice([0.0, 5.0, 10.0, 20.0, round(rng.uniform(0, 40), 3)])
        hi = rng.choice([lo, 80.0, 90.0, 100.0, round(rng.uniform(lo, 100), 3)])
        soc = rng.choice([lo, hi, round(rng.uniform(lo, hi), 4) if hi > lo else lo, round(rng.uniform(0, 100), 4),
                          lo - 5, hi + 5])
        d: dict[str, Any] = {"cap": rng.choice([0.0, 1000.0, 5000.0, 98000.0, round(rng.uniform(1, 1e5), 2)]),
                             "lo": lo, "hi": hi, "soc": soc}
        for k in list(d):
            if rng.random() < 0.05:
                del d[k]
        bats[str(b)] = d
    working = [b for b in range(1, nb + 1) if rng.random() < 0.75]
    case = {"n": nb, "bats": bats, "working": working, "scale": rng.choice([1e-3, 0.5, 3.0, 1e3]),
            "bump": rng.choice([0.001, 1.0, 10.0, 50.0])}
    if i % 25 == 0:
        case["integration"] = gen_integration(rng)
    return case


def _mk(bats: dict[str, Any]) -> dict[int, Any]:
    from frequenz.client.microgrid import ComponentMetricId as M

    from frequenz.sdk.timeseries.battery_pool._component_metrics import ComponentMetricsData
    from ..batdata import TS

    out = {}
    for b, d in bats.items():
        m = {}
        if "cap" in d:
            m[M.CAPACITY] = d["cap"]
        if "lo" in d:
            m[M.SOC_LOWER_BOUND] = d["lo"]
        if "hi" in d:
            m[M.SOC_UPPER_BOUND] = d["hi"]
        if "soc" in d:
            m[M.SOC] = d["soc"]
        out[int(b)] = ComponentMetricsData(int(b), TS, m)
    return out


def _ref_soc(bats: dict[str, Any], working: list[int]) -> tuple[int, F, F]:
    used, tot, n = F(0), F(0), 0
    for b in working:
        d = bats.get(str(b))
        if d is None or any(k not in d for k in ("cap", "lo", "hi", "soc")):
            continue
        n += 1
        cap, lo, hi, soc = (F(d[k]) for k in ("cap", "lo", "hi", "soc"))
        w = cap * (hi - lo)
        if hi == lo:
            sc = F(0) if soc < lo else F(100)
        else:
            sc = min(max((soc - lo) / (hi - lo) * 100, F(0)), F(100))
        used += w * sc
        tot += w
    return n, used, tot


def _soc(bats: dict[str, Any], working: list[int]) -> float | None:
    from frequenz.sdk.timeseries.battery_pool._metric_calculator import SoCCalculator

    calc = SoCCalculator(set(range(1, 8)))
    s = calc.calculate(_mk(bats), set(working))
    return None if s.value is None else s.value.as_percent()


def check(case: dict[str, Any], rec: Any) -> None:
    from frequenz.sdk.timeseries.battery_pool._metric_calculator import CapacityCalculator

    if "integration" in case:
        check_integration(case["integration"], rec)
    bats, working = case["bats"], case["working"]
    if any(b not in working for b in range(1, case["n"] + 1)):
        rec.bucket("non-working-excluded")
    for d in bats.values():
        if len(d) < 4:
            rec.bucket("metric-missing")
        if all(k in d for k in ("lo", "hi", "soc")):
            if d["soc"] < d["lo"] or d["soc"] > d["hi"]:
                rec.bucket("soc-outside-limits")
            if d["soc"] in (d["lo"], d["hi"]):
                rec.bucket("soc-on-limit")
            if d["lo"] == d["hi"]:
                rec.bucket("equal-limits")
        if d.get("cap") == 0:
            rec.bucket("zero-capacity")
    n, used, tot = _ref_soc(bats, working)
    got = _soc(bats, working)
    rec.count("soc_values_compared")
    w = {"bats": bats, "working": working, "got": got, "qualifying": n,
         "reference": None if n == 0 else (float(used / tot) if tot > 0 else "total weight 0")}
    if (got is None) != (n == 0):
        rec.violation("None-iff-no-battery-qualifies", w)
        return
    if got is not None and got != got:
        rec.violation("soc-is-NaN", w)
        return
    if got is None:
        rec.bucket("none-result")
    else:
        if not (0.0 <= got <= 100.0):
            rec.violation("soc-outside-[0,100]", w)
        if tot > 0 and tot >= F(1, 10 ** 8):
            exp = used / tot
            if abs(F(got) - exp) > F(1, 10 ** 9) * max(F(1), abs(exp)):
                rec.violation("soc-differs-from-documented-weighted-mean", w)
        if tot == 0:
            rec.bucket("zero-total-weight")
    # capacity
    calc = CapacityCalculator(set(range(1, 8)))
    cs = calc.calculate(_mk(bats), set(working))
    cq = [bats[str(b)] for b in working if str(b) in bats and all(k in bats[str(b)] for k in ("cap", "lo", "hi"))]
    rec.count("capacity_values_compared")
    if (cs.value is None) != (len(cq) == 0):
        rec.violation("capacity-None-iff-no-battery-qualifies", {**w, "capacity": repr(cs.value)})
    elif cs.value is not None:
        exp_c = sum(F(d["cap"]) * (F(d["hi"]) - F(d["lo"])) / 100 for d in cq)
        if abs(F(cs.value.as_watt_hours()) - exp_c) > F(1, 10 ** 9) * max(F(1), abs(exp_c)):
            rec.violation("capacity-differs-from-sum-of-usable-capacities",
                          {**w, "capacity": cs.value.as_watt_hours(), "expected": float(exp_c)})
    # metamorphic: raising one battery's SoC never lowers the result
    if got is not None:
        for b in working:
            d = bats.get(str(b))
            if d is None or "soc" not in d:
                continue
            b2 = {k: dict(v) for k, v in bats.items()}
            b2[str(b)]["soc"] = d["soc"] + case["bump"]
            g2 = _soc(b2, working)
            rec.bucket("monotonicity-checked")
            if g2 is None or g2 < got - 1e-9:
                rec.violation("soc-decreases-when-a-battery-soc-increases", {**w, "battery": b, "bump": case["bump"],
                                                                              "after": g2})
        # metamorphic: a common capacity factor changes nothing (totals >= 1 Wh on both sides)
        c = case["scale"]
        if tot >= 100 and tot * F(c) >= 100:
            b3 = {k: dict(v) for k, v in bats.items()}
            for d in b3.values():
                if "cap" in d:
                    d["cap"] = d["cap"] * c
            g3 = _soc(b3, working)
            rec.bucket("scale-invariance-checked")
            if g3 is None or not abs(g3 - got) <= 1e-9 * max(1.0, got):
                rec.violation("soc-changes-under-common-capacity-factor", {**w, "factor": c, "after": g3})
    rec.nontrivial(n >= 2)
    rec.observed({"soc": got, "reference": w["reference"], "capacity": None if cs.value is None else cs.value.as_watt_hours()})


# ------------------------------------------------------------------ integration tier
# LatestBatteryMetricsFetcher (NaN metrics dropped, silent batteries -> empty metrics) + SendOnUpdate
# (cache per battery, cache dropped when a battery stops working) + SoCCalculator, over the fake API.


def gen_integration(rng: Any) -> dict[str, Any]:
    nb = rng.randint(1, 4)
    ev: list[list[Any]] = []
    t = 0.0
    working = list(range(1, nb + 1))
    ev.append([0.0, "working", list(working)])
    silent_until = {b: 0.0 for b in range(1, nb + 1)}
    # one battery goes silent twice: once in the middle of the run (it comes back), and a second time before the end -
    # it is still silent at the checkpoint, so its last values must not be part of the aggregate
    twice = rng.randint(1, nb) if rng.random() < 0.3 else None
    first_gap = rng.choice([3.2, 4.4, 5.6])
    while t < 12.0:
        t = round(t + 0.4, 3)
        for b in range(1, nb + 1):
            if b == twice and (first_gap <= t < first_gap + 2.8 or t >= 9.6):
                continue
            if t < silent_until[b]:
                continue
            if rng.random() < 0.04:
                silent_until[b] = t + rng.choice([1.0, 2.6, 4.0])
                continue
            lo = rng.choice([0.0, 10.0, 20.0])
            hi = rng.choice([80.0, 90.0, 100.0])
            d: dict[str, Any] = {"cap": rng.choice([1000.0, 5000.0, 98000.0]), "lo": lo, "hi": hi,
                                 "soc": rng.choice([lo, hi, round(rng.uniform(lo, hi), 3), lo - 5, hi + 5])}
            for k in list(d):
                if rng.random() < 0.06:
                    d[k] = None  # NaN in the message
            ev.append([round(t + 0.01 * b, 3), "data", b, d])
        if rng.random() < 0.12:
            working = [b for b in range(1, nb + 1) if rng.random() < 0.7]
            ev.append([round(t + 0.2, 3), "working", list(working)])
    # final full round so that nothing is silent at the checkpoint
    t = round(t + 0.4, 3)
    for b in range(1, nb + 1):
        if b == twice:
            continue
        lo, hi = 10.0, 90.0
        d = {"cap": rng.choice([1000.0, 5000.0]), "lo": lo, "hi": hi, "soc": round(rng.uniform(0, 100), 3)}
        if rng.random() < 0.3:
            d[rng.choice(["cap", "lo", "hi", "soc"])] = None  # NaN in the very last message of this battery
        ev.append([round(t + 0.01 * b, 3), "data", b, d])
    # pool.soc is first accessed either before anything happened or after some status/data events (the aggregator is
    # created lazily with the working set known at that moment)
    # device clocks: a battery's samples are stamped by the device, which may lag or lead the local clock
    # (only lagging clocks: the sender's rate limiter sleeps min_update_interval - (now - newest sample timestamp), so a
    # leading device clock merely postpones updates, which is not what this property is about)
    return {"clock_off": [rng.choice([0.0, 0.0, -30.0, -3.0, -0.5]) for _ in range(nb + 1)], "silent_twice": twice,
            "nb": nb, "events": ev, "checkpoint": round(t + 1.0, 3),
            "access_after_event": rng.choice([0, 0, rng.randint(1, max(1, len(ev) // 2))])}


async def _drive_integration(case: dict[str, Any], out: dict[str, Any]) -> None:
    import asyncio
    import math as _m
    from datetime import datetime, timedelta, timezone

    from frequenz.sdk.timeseries.battery_pool._methods import SendOnUpdate
    from frequenz.sdk.timeseries.battery_pool._metric_calculator import SoCCalculator

    from .. import batdata, fakes

    loop = asyncio.get_event_loop()
    nb = case["nb"]
    groups = [([10 + b], [100 + b]) for b in range(1, nb + 1)]  # component ids: battery 10+b, inverter 100+b
    comps, conns = fakes.battery_topology(groups)
    api = fakes.install_connection_manager(comps, conns)
    ids = {10 + b for b in range(1, nb + 1)}
    # the real BatteryPool.soc path: reference store (working set from the status channel) -> SendOnUpdate
    from unittest.mock import MagicMock

    from frequenz.channels import Broadcast

    from frequenz.sdk._internal._channels import ChannelRegistry
    from frequenz.sdk.microgrid._power_distributing._component_status import ComponentPoolStatus
    from frequenz.sdk.timeseries.battery_pool import BatteryPool
    from frequenz.sdk.timeseries.battery_pool._battery_pool_reference_store import \
        BatteryPoolReferenceStore

    status_ch = Broadcast(name="battery-status", resend_latest=True)
    status_tx = status_ch.new_sender()
    store = BatteryPoolReferenceStore(
        channel_registry=ChannelRegistry(name="vf"), resampler_subscription_sender=Broadcast(name="rs").new_sender(),
        batteries_status_receiver=status_ch.new_receiver(limit=1), power_manager_requests_sender=Broadcast(name="pm").new_sender(),
        power_manager_bounds_subscription_sender=Broadcast(name="pb").new_sender(),
        power_distribution_results_fetcher=MagicMock(), min_update_interval=timedelta(seconds=0.2), batteries_id=set(ids))
    pool = BatteryPool(pool_ref_store=store, name="vf", priority=0, set_operating_point=False)
    agg = None
    rx = None
    crx = None
    t0 = loop.time()
    for n_ev, e in enumerate(case["events"]):
        if agg is None and n_ev >= case.get("access_after_event", 0):
            agg = pool.soc  # first access creates the aggregator
            rx = agg.new_receiver(limit=1000)
            crx = pool.capacity.new_receiver(limit=1000)  # the capacity aggregator over the same store
        dt = t0 + e[0] - loop.time()
        if dt > 0:
            await asyncio.sleep(dt)
        if e[1] == "working":
            await status_tx.send(ComponentPoolStatus(working={10 + b for b in e[2]}, uncertain=set()))
        else:
            b, d = e[2], e[3]
            full = {"cap": d["cap"] if d["cap"] is not None else float("nan"), "soc": d["soc"] if d["soc"] is not None else float("nan"),
                    "lo": d["lo"] if d["lo"] is not None else float("nan"), "hi": d["hi"] if d["hi"] is not None else float("nan"),
                    "il": -1000.0, "el": 0.0, "eu": 0.0, "iu": 1000.0}
            off = (case.get("clock_off") or [0.0] * (b + 1))[b]
            await api.feed(10 + b, batdata.mk_battery(10 + b, full, datetime.now(timezone.utc) + timedelta(seconds=off)))
    dt = t0 + case["checkpoint"] - loop.time()
    if dt > 0:
        await asyncio.sleep(dt)
    last = None
    n = 0
    while rx._q:  # noqa: SLF001
        last = rx.consume()
        n += 1
    out["n_results"] = n
    out["last"] = None if last is None or last.value is None else last.value.as_percent()
    out["last_is_none_sample"] = last is not None and last.value is None
    clast = None
    while crx._q:  # noqa: SLF001
        clast = crx.consume()
    out["cap_last"] = None if clast is None or clast.value is None else clast.value.as_watt_hours()
    await store.stop()


def check_integration(case: dict[str, Any], rec: Any) -> None:
    from ..vloop import run_virtual

    out: dict[str, Any] = {}
    run_virtual(lambda: _drive_integration(case, out))
    # reference cache model
    cache: dict[int, dict[str, Any]] = {}
    latest: dict[int, dict[str, Any]] = {}
    last_data: dict[int, float] = {}
    working: set[int] = set()  # nothing is working until the first status message
    MAXAGE = 2.0
    accessed = False
    if case.get("silent_twice"):
        rec.bucket("integration:battery-silent-a-second-time-at-the-checkpoint")
    if any((case.get("clock_off") or [0.0])[1:case["nb"] + 1]):
        rec.bucket("integration:device-clock-differs-from-local-clock")
    for n_ev, e in enumerate(case["events"]):
        if not accessed and n_ev >= case.get("access_after_event", 0):
            accessed = True
            cache = dict(latest)  # the fake API re-sends the latest message to a new subscriber
            if n_ev > 0:
                rec.bucket("integration:soc-first-accessed-after-status-known")
        t = e[0]
        if e[1] == "working":
            new = set(e[2])
            for b in working - new:
                cache.pop(b, None)
                rec.bucket("integration:cache-dropped-on-stop-working")
            working = new
        else:
            b, d = e[2], e[3]
            if b in last_data and t - last_data[b] > MAXAGE + 1e-6:
                rec.bucket("integration:silent-battery-timed-out")
            last_data[b] = t
            if any(v is None for v in d.values()):
                rec.bucket("integration:nan-metric-dropped")
            latest[b] = {k: v for k, v in d.items() if v is not None}
            if accessed:
                cache[b] = latest[b]
    cp = case["checkpoint"]
    bats = {str(b): (d if cp - last_data.get(b, -1e9) <= MAXAGE + 1e-6 else {}) for b, d in cache.items()}
    n, used, tot = _ref_soc(bats, sorted(working))
    rec.count("integration_checkpoints")
    # pool capacity through the same path: sum of usable capacities of the working batteries with cap and limits
    cq = [d for b in sorted(working) if (d := bats.get(str(b))) is not None and all(k in d for k in ("cap", "lo", "hi"))]
    cexp = float(sum(F(d["cap"]) * (F(d["hi"]) - F(d["lo"])) / 100 for d in cq)) if cq else None
    wc = {"events_tail": case["events"][-6:], "working": sorted(working), "cache_model": bats,
          "capacity_emitted_last": out.get("cap_last"), "expected": cexp}
    rec.count("integration_capacity_checkpoints")
    if cexp is None:
        if out.get("cap_last") is not None:
            rec.violation("integration:capacity-streamed-although-no-battery-qualifies", wc)
    elif out.get("cap_last") is None or not abs(out["cap_last"] - cexp) <= 1e-9 * max(1.0, abs(cexp)):
        rec.violation("integration:streamed-capacity-differs-from-sum-of-usable-capacities", wc)
    w = {"events_tail": case["events"][-8:], "working": sorted(working), "cache_model": bats, "emitted_last": out.get("last"),
         "n_results": out.get("n_results")}
    if n == 0:
        if out.get("last") is not None:
            rec.violation("integration:value-streamed-although-no-battery-qualifies", w)
        return
    exp = float(used / tot) if tot > 0 else None
    if exp is not None:
        if out.get("last") is None or not abs(out["last"] - exp) <= 1e-9 * max(1.0, exp):
            rec.violation("integration:streamed-soc-differs-from-aggregate-of-latest-valid-data", {**w, "expected": exp})


FINDINGS: dict[str, Any] = {}

LEVEL_NOTE += ' Rounds 13-14: a battery silent a second time at the checkpoint.'
