"""C14 — power requests for a component group are applied one at a time, latest wins.

Monitor: a probe ComponentManager substituted for BatteryManager when the real
PowerDistributingActor is constructed; its distribute_power records enter/exit per (group, request
id) in virtual time and completes per script (instant / slow / raising). Requests carry unique ids.
Oracle: per-group history rules (no overlap, subsequence, latest wins at the completion instant,
last request applied at quiescence, independence of disjoint groups).
"""

from __future__ import annotations

import asyncio
from datetime import timedelta
from typing import Any

from ..vloop import LoopMonitor, run_virtual

ID = "C14"
LEVEL = "exploration"
TECHNIQUE = ("runtime monitor: enter/exit history of a probe ComponentManager under the real PowerDistributingActor in "
             "virtual time, unique request ids; oracle = per-group serialisation / coalescing / progress rules over the "
             "recorded history; completion-callback exceptions observed via the loop exception handler")
LEVEL_TEXT = ("held on N generated request schedules over 1-3 disjoint groups (2-30 requests, arrival times before, "
              "exactly at and after completion instants; durations 0 / short / long; distributions that raise). "
              "'Eventually applied' is decided as bounded progress: entered at the completion instant and the last "
              "request entered by quiescence. Distinct abstract interleavings are counted.")
LEVEL_NOTE = ("the manager is a harness probe (the property is about the actor's scheduling, not about distribution); "
              "each send is followed by loop yields so that log order equals processing order; same-instant "
              "arrival/completion is judged in log order (either order yields the same expected history)")
RULE = ("seeded schedules; distinct = canonical schedule JSON; non-trivial = some request arrived while another of the "
        "same group was in flight")
REQUIRED_BUCKETS = ["arrival-while-in-flight", "coalesced(overwritten-pending)", "arrival-at-completion-instant",
                    "in-flight-raised", "multi-group", "duration-0", "pending-started-at-exit-instant",
                    "independent-group-started-while-other-busy", "equal-requests-repeated",
                    "overlapping-groups", "through-the-power-wrapper", "requests-issued-in-one-loop-iteration",
                    "caller-re-targets-one-set-object-from-request-to-request",
                    "actor-stopped-and-started-again:while-a-distribution-is-in-flight"]
REQUIRED_COUNTERS = ["requests_sent", "distributions_entered", "schedules_run"]
ASSUMPTIONS = ["probe ComponentManager; virtual time"]

# ids of one group collide in a small hash table (1 and 9, 4 and 12): two equal sets built in a different insertion
# order then iterate in a different order - a group must be identified by its members, not by how a set lists them
# the fourth group overlaps two others without being equal to them: groups are told apart by their exact member set,
# a request of one must neither be held back behind nor be confused with a request of an overlapping one
GROUPS = [[1, 9], [3], [4, 12], [3, 9]]


def budget(tier: str) -> dict[str, Any]:
    if tier == "quick":
        return {"shards": 8, "cases": 2000}
    return {"shards": 32, "cases": 5000, "hashseeds": [0, 1, 2, 3]}


def gen(rng: Any, tier: str, i: int) -> Any:
    ng = rng.choice([1, 2, 3, 3, 4])
    n = rng.randint(2, 30)
    t = 0.0
    reqs = []
    for k in range(n):
        t += rng.choice([0, 0, 0.5, 1.0, 1.0, 2.0, 3.5])
        reqs.append([t, rng.randrange(ng), rng.choice([0, 0, 0.5, 1.0, 1.0, 2.0, 5.0]), rng.random() < 0.25])
    if rng.random() < 0.4:
        # requests that are *equal* to earlier ones (same power, same components): 5th field = shared power class
        for r in reqs:
            if rng.random() < 0.6:
                r.append(rng.choice([0, 0, 1]))
    via_wrapper = rng.random() < 0.3
    return {"n_groups": ng, "requests": reqs, "via_wrapper": via_wrapper, "bursts": rng.random() < 0.5,
            # the caller keeps ONE mutable set object for Request.component_ids and re-targets it from request to request
            "shared_set": ng >= 2 and rng.random() < 0.25,
            # the actor is stopped and started again in the middle of the schedule (requests may be in flight / pending)
            "restart_at": round(rng.uniform(0.2, 0.8) * t + 0.25, 3) if (not via_wrapper and rng.random() < 0.2) else None}


async def _drive(case: dict[str, Any], log: list[Any]) -> None:
    from frequenz.channels import Broadcast
    from frequenz.client.microgrid import ComponentCategory
    from frequenz.quantities import Power

    from frequenz.sdk.microgrid._power_distributing import Request
    from frequenz.sdk.microgrid._power_distributing import power_distributing as pd

    loop = asyncio.get_event_loop()
    script = {float(i + 1): (r[2], r[3]) for i, r in enumerate(case["requests"])}
    script[-1.0] = (0, False)
    ident: dict[int, float] = {}
    objs: dict[float, Any] = {}
    group_when_sent: dict[float, Any] = {}
    shared: set[int] = set()

    class Probe:
        def __init__(self, *a: Any, **k: Any) -> None:
            pass

        def component_ids(self) -> set[int]:
            return set()

        async def start(self) -> None:
            pass

        async def stop(self) -> None:
            pass

        async def distribute_power(self, request: Any) -> None:
            g = tuple(sorted(request.component_ids))
            rid = ident.get(id(request))
            if rid is None:  # a copy of the request object: the most recent sent request equal to it
                rid = next((r for r, o in reversed(list(objs.items())) if o == request), -1.0)
            if rid in group_when_sent:
                g = group_when_sent[rid]  # (the caller may have re-targeted its set object since)
            log.append(("enter", g, rid, loop.time()))
            d, fail = script[rid]
            try:
                if d > 0:
                    await asyncio.sleep(d)
                if fail:
                    raise RuntimeError("scripted distribution failure")
            finally:
                log.append(("exit", g, rid, loop.time()))

    saved = pd.BatteryManager
    pd.BatteryManager = Probe  # type: ignore[misc,assignment]
    try:
        wrapper = None
        if case.get("via_wrapper"):
            # the actor as the SDK itself wires it (microgrid/_power_wrapper.py): requests reach it through the
            # wrapper's own requests channel and receiver
            from frequenz.sdk._internal._channels import ChannelRegistry
            from frequenz.sdk.microgrid._power_wrapper import PowerWrapper

            from .. import fakes

            comps, conns = fakes.battery_topology([([21, 29, 23], [101])])  # (some batteries must exist for the wrapper to start the actor)
            fakes.install_connection_manager(comps, conns)
            wrapper = PowerWrapper(ChannelRegistry(name="vf"), api_power_request_timeout=timedelta(seconds=5),
                                   component_category=ComponentCategory.BATTERY)
            wrapper._start_power_distributing_actor()  # noqa: SLF001
            actor = next(v for v in vars(wrapper).values() if isinstance(v, pd.PowerDistributingActor))
            # the requests channel: the one Broadcast the wrapper holds besides its public ones and the results channel
            public = [wrapper.status_channel, wrapper.proposal_channel, wrapper.bounds_subscription_channel,
                      wrapper.distribution_results_fetcher()]
            others = [v for v in vars(wrapper).values() if isinstance(v, Broadcast) and not any(v is c for c in public)]
            if len(others) != 1:
                from ..common import HarnessError

                raise HarnessError(f"PowerWrapper holds {len(others)} candidate request channels")
            tx = others[0].new_sender()
        else:
            reqc, resc, stc = Broadcast(name="req"), Broadcast(name="res"), Broadcast(name="st")
            actor = pd.PowerDistributingActor(reqc.new_receiver(limit=1000), resc.new_sender(), stc.new_sender(),
                                              api_power_request_timeout=timedelta(seconds=5),
                                              component_category=ComponentCategory.BATTERY)
            actor.start()
            tx = reqc.new_sender()
        await asyncio.sleep(0)
        t0 = loop.time()
        restarted = case.get("restart_at") is None

        async def restart() -> None:
            await actor.stop()
            await asyncio.sleep(0.125)
            actor.start()
            log.append(("restarted", (), 0.0, loop.time()))

        for i, (at, g, _d, _f, *pclass) in enumerate(case["requests"]):
            if not restarted and at >= case["restart_at"]:
                dt = t0 + case["restart_at"] - loop.time()
                if dt > 0:
                    await asyncio.sleep(dt)
                restarted = True
                await restart()
            dt = t0 + at - loop.time()
            if dt > 0:
                await asyncio.sleep(dt)
            grp = tuple(GROUPS[g])
            log.append(("sent", grp, float(i + 1), loop.time()))
            group_when_sent[float(i + 1)] = tuple(sorted(grp))
            members = list(grp) if i % 3 != 1 else list(reversed(grp))
            ids: set[int] = set(members)
            if case.get("shared_set"):
                shared.clear()
                shared.update(members)
                ids = shared
            req = Request(power=Power.from_watts(1000.0 + pclass[0] if pclass else float(i + 1)), component_ids=ids)
            ident[id(req)] = float(i + 1)
            objs[float(i + 1)] = req  # (kept alive: object identity is the request id)
            await tx.send(req)
            nxt_at = case["requests"][i + 1][0] if i + 1 < len(case["requests"]) else None
            if case.get("bursts") and nxt_at == at and not case.get("shared_set"):
                # (with a shared set object the caller re-targets it only after the actor has taken the request over)
                continue  # requests issued in one go (same event-loop iteration), e.g. by one actor for several pools
            for _ in range(6):
                await asyncio.sleep(0)
        await asyncio.sleep(300)
        log.append(("quiescent", (), 0.0, loop.time()))
        await actor.stop()
    finally:
        pd.BatteryManager = saved  # type: ignore[misc]


def check(case: dict[str, Any], rec: Any) -> None:
    log: list[Any] = []
    mon = LoopMonitor()
    run_virtual(lambda: _drive(case, log), monitor=mon)
    rec.count("schedules_run")
    rec.count("requests_sent", sum(1 for e in log if e[0] == "sent"))
    rec.count("distributions_entered", sum(1 for e in log if e[0] == "enter"))
    if case["n_groups"] > 1:
        rec.bucket("multi-group")
    if case["n_groups"] > 3:
        rec.bucket("overlapping-groups")
    if case.get("via_wrapper"):
        rec.bucket("through-the-power-wrapper")
    ats = [r[0] for r in case["requests"]]
    if case.get("bursts") and len(ats) != len(set(ats)):
        rec.bucket("requests-issued-in-one-loop-iteration")
    if any(r[2] == 0 for r in case["requests"]):
        rec.bucket("duration-0")
    if any(len(r) > 4 for r in case["requests"]):
        rec.bucket("equal-requests-repeated")
    script = {float(i + 1): (r[2], r[3]) for i, r in enumerate(case["requests"])}
    nontrivial = False
    groups = sorted({e[1] for e in log if e[0] not in ("quiescent", "restarted")})
    if case.get("shared_set"):
        rec.bucket("caller-re-targets-one-set-object-from-request-to-request")
    for e in log:
        if e[0] == "restarted":
            busy = sum(1 for x in log if x[0] == "enter" and x[3] <= e[3]) > sum(1 for x in log if x[0] == "exit" and x[3] <= e[3])
            rec.bucket("actor-stopped-and-started-again" + (":while-a-distribution-is-in-flight" if busy else ""))
    sig = []
    for g in groups:
        ev = [e for e in log if e[1] == g]
        w0 = {"group": list(g), "history": [(k, rid, t) for k, _, rid, t in ev][:80]}
        inflight: Any = None  # None | rid | ("expect", rid)
        pending = None
        entered: list[float] = []
        last_sent = None
        sent_ids: list[float] = []
        for i, (k, _, rid, t) in enumerate(ev):
            sig.append(k[0])
            if k == "sent":
                last_sent = rid
                sent_ids.append(rid)
                busy = inflight is not None
                if not busy:
                    nxt = [e for e in ev[i + 1:] if e[0] == "enter"]
                    if not nxt or nxt[0][2] != rid or nxt[0][3] != t:
                        rec.violation("idle-group-did-not-start-the-request-at-its-arrival-instant",
                                      {**w0, "request": rid, "arrival": t})
                        return
                    # independence: some other group is busy right now?
                    for og in groups:
                        if og != g:
                            oe = [e for e in log if e[1] == og and e[3] <= t]
                            n_en = sum(1 for e in oe if e[0] == "enter")
                            n_ex = sum(1 for e in oe if e[0] == "exit")
                            if n_en > n_ex:
                                rec.bucket("independent-group-started-while-other-busy")
                    inflight = ("expect", rid)
                else:
                    nontrivial = True
                    rec.bucket("arrival-while-in-flight")
                    if pending is not None:
                        rec.bucket("coalesced(overwritten-pending)")
                    cur = inflight[1] if isinstance(inflight, tuple) else inflight
                    if t > 0 and any(e[0] == "exit" and e[2] == cur and e[3] == t for e in ev):
                        rec.bucket("arrival-at-completion-instant")
                    pending = rid
            elif k == "enter":
                if inflight is not None and not isinstance(inflight, tuple):
                    rec.violation("two-requests-of-one-group-processed-concurrently", {**w0, "entered": rid,
                                                                                        "in_flight": inflight})
                    return
                if isinstance(inflight, tuple) and inflight[1] != rid:
                    rec.violation("entered-request-is-not-the-expected-one", {**w0, "entered": rid,
                                                                              "expected": inflight[1]})
                    return
                if inflight is None:
                    rec.violation("request-entered-without-being-due", {**w0, "entered": rid})
                    return
                inflight = rid
                entered.append(rid)
            elif k == "exit":
                if script[rid][1]:
                    rec.bucket("in-flight-raised")
                if pending is not None:
                    nxt = [e for e in ev[i + 1:] if e[0] == "enter"]
                    if not nxt or nxt[0][2] != pending or nxt[0][3] != t:
                        rec.violation("latest-pending-request-not-started-at-the-completion-instant",
                                      {**w0, "completed": rid, "pending": pending, "t": t,
                                       "in_flight_raised": script[rid][1]})
                        return
                    rec.bucket("pending-started-at-exit-instant")
                    inflight = ("expect", pending)
                    pending = None
                else:
                    inflight = None
        if entered and entered[-1] != last_sent:
            rec.violation("last-request-of-the-group-never-applied", {**w0, "entered": entered, "last_sent": last_sent})
        it = iter(sent_ids)
        if not all(any(x == y for y in it) for x in entered):
            rec.violation("entered-requests-are-not-a-subsequence-of-the-sent-ones", {**w0, "entered": entered})
        n_en = sum(1 for e in ev if e[0] == "enter")
        n_ex = sum(1 for e in ev if e[0] == "exit")
        if n_en != n_ex:
            rec.violation("distribution-still-in-flight-at-quiescence", w0)
    real = [e for e in mon.loop_exceptions if e["exception"] != "None"]  # (GC notices carry no exception)
    if real:
        rec.violation("exception-reached-the-event-loop(completion-callback)", {"loop_exceptions": real[:3]})
    rec.count("interleaving_signature_len", len(sig))
    rec.nontrivial(nontrivial)
    rec.observed({"history": [(k, list(g), rid, t) for k, g, rid, t in log][:30]})


FINDINGS: dict[str, Any] = {}

LEVEL_NOTE += ' Rounds 13-14: one set object re-targeted from request to request; actor stopped and started again mid-schedule.'
