"""C08 — resampled values use exactly the recent, non-future input samples.

Monitor: a recording resampling_function supplied through ResamplerConfig (public API) logs the exact
sequence it is given; sinks log the emitted sample; the helper's buffer capacity and source
properties (hooked state) are read after each tick. Oracle: an own deque mirroring "the most recent
ones that fit the configured buffer" + the half-open relevance interval.
"""

from __future__ import annotations

import math
from collections import deque
from datetime import timedelta, timezone
from typing import Any

from .. import resamp

ID = "C08"
LEVEL = "exploration"
TECHNIQUE = ("runtime monitor: recording resampling_function + sinks on the real Resampler in virtual time, every "
             "input sample carrying a unique id; oracle = reference deque (observed capacity) and the interval "
             "(T - max_age*max(period, input period), T]")
LEVEL_TEXT = ("held on N generated runs x every tick: the sequence handed to the resampling function is compared by "
              "sample identity with the reference selection; boundary timestamps (exactly T, exactly T-max_age*P, sent "
              "before the tick but stamped after it), None/NaN inputs, bursts, silences and buffer resizes are forced "
              "by the generator and required as coverage buckets.")
LEVEL_NOTE = ("virtual time; an arrival at exactly a tick's virtual instant is a genuine race and that tick is skipped "
              "(counted); the reference adopts the capacity observed on the helper at each tick (a capacity that grows "
              "later does not resurrect evicted samples); input series are time-ordered per the property's domain"
              ' Build phase: non-UTC sample stamps, infinite values, equal timestamps, default resampling function, independent up-sampling buffer size.')
RULE = ("seeded (period, max_age in {1,1.5,3,10}, initial/max buffer lengths {1,2,16,32}) x producer scripts with "
        "up-/down-sampling ratios, bursts, silences > max age, grid-stamped and future-stamped samples, None/NaN. "
        "distinct = canonical case JSON; non-trivial = >=5 ticks compared with a non-empty expected set and >=1 tick "
        "with an empty one or an excluded future/old sample")
REQUIRED_BUCKETS = ["tick-nonempty", "tick-empty(None)", "sample-exactly-T", "sample-exactly-T-minus-age",
                    "future-sample-excluded", "old-sample-excluded", "none-or-nan-input", "zero-valued-input", "input-period-estimated",
                    "buffer-resized", "buffer-evicted", "upsampling", "downsampling", "silence>max-age",
                    "default-resampling-function", "upsampling-buffer-size-checked", "infinite-valued-input", "samples-stamped-in-a-non-utc-zone", "samples-stamped-in-a-daylight-saving-zone-across-a-clock-change", "equal-timestamps", "series-share-a-name", "function-result-NaN"]
REQUIRED_COUNTERS = ["ticks_compared", "function_calls_observed", "input_period_estimates_checked"]
ASSUMPTIONS = ["time-ordered inputs; virtual clock"]


def budget(tier: str) -> dict[str, Any]:
    if tier == "quick":
        return {"shards": 8, "cases": 1500}
    return {"shards": 32, "cases": 3000, "hashseeds": [0, 1, 2, 3]}


def gen(rng: Any, tier: str, i: int) -> Any:
    period = rng.choice([1.0, 2.0, 0.5, 1.0, 0.1, 0.3])
    age = rng.choice([1.0, 1.5, 3.0, 10.0])
    init = rng.choice([1, 2, 16])
    maxlen = max(2, rng.choice([init, init + 1, 32]))
    ticks = rng.randint(14, 30)
    ns = rng.choice([1, 1, 2, 3])
    series = []
    fn_kind = "default" if rng.random() < 0.2 else "recording"
    odd = ["none", "nan", "zero"] + (["inf"] if fn_kind == "recording" else [])
    for s in range(ns):
        ip = rng.choice([0.1, 0.3, 1.0, 2.5]) * period
        ev = []
        t = 0.0
        while t < period * ticks:
            d = round(ip * rng.choice([1, 1, 1, 1, 0.2, 3, 6, age * 1.5 + 1]) + 0.0137, 6)
            t += d
            r = rng.random()
            tsk = rng.choices(["now", "past", "future", "far-future", "grid-next", "grid-prev", "grid-age-edge", "same"],
                              weights=[50, 10, 8, 5, 10, 7, 10, 6])[0]
            vk = "ok" if r > 0.15 else rng.choice(odd)
            ev.append([d, tsk, vk])
        series.append({"add_at": 0.0, "events": ev, "ip": ip, "tz_min": rng.choice([0, 0, 0, 120, -300, 345])})
    start_offset = rng.choice([0.0, 0.3, 0.999999, period / 2, 17.25])
    if rng.random() < 0.15:
        # the sources stamp their samples in a zone with daylight saving, and the run straddles a clock change
        # (2024-03-31 / 2024-10-27 01:00 UTC in Berlin, 2024-11-03 06:00 UTC in New York)
        zone, change = rng.choice([("Europe/Berlin", 90 * 86400 + 3600), ("Europe/Berlin", 300 * 86400 + 3600),
                                   ("America/New_York", 307 * 86400 + 6 * 3600)])
        for sr in series:
            sr["tz_zone"] = zone
            sr["tz_min"] = 0
        start_offset = round(change - rng.uniform(0.25, 0.75) * ticks * period + start_offset, 6)
    return {"period": period, "align": 0.0, "start_offset": start_offset,
            "max_age": age, "init_len": init, "max_len": maxlen, "ticks": ticks, "series": series, "lat": [],
            "drain_periods": 2, "fn": fn_kind,
            "same_names": ns > 1 and rng.random() < 0.4, "nan_every": rng.choice([0, 0, 0, 4, 7])}


def check(case: dict[str, Any], rec: Any) -> None:
    p = case["period"]
    per = timedelta(seconds=p)
    age = case["max_age"]
    r = resamp.run_case(case)
    calls = r["calls"]
    rec.count("function_calls_observed", len(calls))
    n_nonempty = n_interesting = 0
    if case.get("same_names"):
        rec.bucket("series-share-a-name")
    for s in case["series"]:
        if s["ip"] < p:
            rec.bucket("downsampling")
        if s["ip"] > p:
            rec.bucket("upsampling")
        if any(v in ("none", "nan") for _, _, v in s["events"]):
            rec.bucket("none-or-nan-input")
        if any(v == "zero" for _, _, v in s["events"]):
            rec.bucket("zero-valued-input")
        if s.get("tz_min"):
            rec.bucket("samples-stamped-in-a-non-utc-zone")
        if s.get("tz_zone"):
            rec.bucket("samples-stamped-in-a-daylight-saving-zone-across-a-clock-change")
        if any(v == "inf" for _, _, v in s["events"]):
            rec.bucket("infinite-valued-input")
        if any(k == "same" for _, k, _ in s["events"][1:]):
            rec.bucket("equal-timestamps")
        if any(d > age * max(p, s["ip"]) for d, _, _ in s["events"]):
            rec.bucket("silence>max-age")
    for i, lst in r["sinks"].items():
        arr = r["arrivals"][i]
        model: deque[Any] = deque(maxlen=case["init_len"])
        ai = 0
        seen_sp = False
        prev_cap = case["init_len"]
        for e in lst:
            T, tnow, cap, sp = e["ts"], e["t_recv"], e["cap"], e["sampling_period"]
            tie = False
            while ai < len(arr) and arr[ai]["t_sent"] <= tnow:
                if arr[ai]["t_sent"] == tnow:
                    tie = True
                if len(model) == model.maxlen:
                    rec.bucket("buffer-evicted")
                model.append(arr[ai])
                ai += 1
            w0 = {"series": i, "tick": str(T), "capacity": cap, "sampling_period": str(sp), "period": p, "max_age": age,
                  "init_len": case["init_len"], "max_len": case["max_len"]}
            if not (isinstance(cap, int) and 1 <= cap <= case["max_len"]):
                rec.violation("buffer-capacity-outside-[1,max_buffer_len]", w0)
                break
            if cap != model.maxlen:
                model = deque(model, maxlen=cap)
            if cap != prev_cap:
                rec.bucket("buffer-resized")
                prev_cap = cap
            if sp is not None:
                rec.bucket("input-period-estimated")
                sps = sp.total_seconds()
                if not sps > 0:
                    rec.violation("input-period-estimate-not-positive", {**w0, "buffer_model": len(model)})
                    break
                if not seen_sp:
                    seen_sp = True
                    # estimated once, as (tick - first valid sample's timestamp) / valid samples received so far
                    if ai > 0 and not tie:
                        est = (T - arr[0]["ts"]).total_seconds() / ai
                        rec.count("input_period_estimates_checked")
                        if abs(sps - est) > 2e-6:
                            rec.violation("input-period-estimate-differs-from-elapsed-time/received-samples",
                                          {**w0, "expected_seconds": est, "received": ai, "first_sample": str(arr[0]["ts"])})
                if sp > per:
                    # up-sampling: the documented size is max_data_age_in_periods *input* periods, counted in seconds
                    # (one sample per second of that span), within [1, max_buffer_len]
                    need = min(case["max_len"], max(1, math.ceil(sps * age)))
                    rec.bucket("upsampling-buffer-size-checked")
                    if cap != need:
                        rec.violation("upsampling-buffer-size-differs-from-the-documented-rule", {**w0, "documented": need})
                        break
                if sp <= per:
                    # down-sampling: the buffer must hold max_age resampling periods of data at the input rate
                    need = min(case["max_len"], max(1, math.ceil(age * p / sps - 1e-9)))
                    if cap < need:
                        rec.violation("buffer-smaller-than-the-max-age-window-at-the-input-rate", {**w0, "needed": need})
                        break
            P = max(per, sp) if sp is not None else per
            lo = T - P * age
            exp = [x for x in model if lo < x["ts"] <= T]
            if tie:
                rec.count("ticks_skipped(arrival at the tick instant)")
                continue
            if tnow >= r["stopped_at"]:
                # drain phase: the harness has cancelled its producers (possibly between a send and its log entry)
                rec.count("ticks_skipped(after the producers were stopped)")
                continue
            rec.count("ticks_compared")
            if any(x["ts"] == T for x in model):
                rec.bucket("sample-exactly-T")
            if any(x["ts"] == lo for x in model):
                rec.bucket("sample-exactly-T-minus-age")
            if any(x["ts"] > T for x in model):
                rec.bucket("future-sample-excluded")
                n_interesting += 1
            if any(x["ts"] <= lo for x in model):
                rec.bucket("old-sample-excluded")
                n_interesting += 1
            w = {**w0, "expected_ids": [x["value"] for x in exp], "expected_ts": [str(x["ts"]) for x in exp],
                 "buffer_model": [(x["value"], str(x["ts"])) for x in model], "emitted": e["value"]}
            if e["value"] is None:
                if exp:
                    rec.violation("None-emitted-although-relevant-samples-exist", w)
                else:
                    rec.bucket("tick-empty(None)")
                    n_interesting += 1
                continue
            if case.get("fn") == "default":
                # the library's default function: the emitted value is the mean of the reference selection
                rec.bucket("default-resampling-function")
                if not exp:
                    rec.violation("value-emitted-although-no-relevant-sample", w)
                    continue
                rec.bucket("tick-nonempty")
                n_nonempty += 1
                mean = math.fsum(x["value"] for x in exp) / len(exp)
                if abs(e["value"] - mean) > 1e-9 * max(1.0, abs(mean)):
                    rec.violation("default-function-value-is-not-the-mean-of-the-reference-selection", {**w, "mean": mean})
                continue
            nc = e["ncalls"]
            if case.get("nan_every") and 1 <= nc <= len(calls) and nc % case["nan_every"] == 0:
                # the function answered NaN for a non-empty selection: that NaN is the emitted value (not None)
                rec.bucket("function-result-NaN")
                if e["value"] == e["value"]:
                    rec.violation("emitted-value-is-not-the-function-result", {**w, "ncalls": nc, "function_returned": "NaN"})
                    continue
            elif not (1 <= nc <= len(calls)) or e["value"] != float(nc):
                rec.violation("emitted-value-is-not-the-function-result", {**w, "ncalls": nc})
                continue
            # (compared in UTC: an inter-zone == is always False inside a repeated hour, PEP 495)
            got = [(ts.astimezone(timezone.utc), v) for ts, v in calls[nc - 1]["samples"]]
            w["function_got_ids"] = [v for _, v in got]
            if not exp:
                rec.violation("function-called-although-no-relevant-sample", w)
                continue
            rec.bucket("tick-nonempty")
            n_nonempty += 1
            if any(ts > T for ts, _ in got):
                rec.violation("sample-stamped-after-T-passed-to-function", w)
            if any(v != v for _, v in got):
                rec.violation("NaN-passed-to-function", w)
            # identity by timestamp (strictly increasing per series) and value
            if [(ts, v) for ts, v in got] != [(x["ts"], x["value"]) for x in exp]:
                rec.violation("function-arguments-differ-from-reference-selection", w)
    rec.nontrivial(n_nonempty >= 5 and n_interesting >= 1)
    rec.observed({"calls": len(calls), "ticks": {str(i): len(v) for i, v in r["sinks"].items()},
                  "first_call": None if not calls else [v for _, v in calls[0]["samples"]]})


FINDINGS: dict[str, Any] = {}

LEVEL_NOTE += ' Rounds 13-14: sources stamping in a daylight-saving zone across a clock change.'
