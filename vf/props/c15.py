"""C15 — distribution results truthfully account for the requested power.

Monitor: Result objects on the results channel + the set_power call log of the fake API,
for the real BatteryManager (real algorithm, maps, status trackers fed healthy data) and
the real PVManager, under every assignment of per-call outcomes.
Also carries C01's manager-level identity (sum of commanded set-points == request - excess).
"""

from __future__ import annotations

import asyncio
import itertools
from datetime import datetime, timedelta, timezone
from typing import Any

from .. import batdata, fakes
from ..common import tol
from ..vloop import LoopMonitor, run_virtual

ID = "C15"
LEVEL = "fault_enumeration"
TECHNIQUE = ("runtime monitor: boundary recorder (Result on the results channel vs set_power calls at a fake API) on "
             "the real BatteryManager / PVManager in virtual time with per-call fault injection (ok, out-of-range, "
             "client error, unexpected exception, no reply -> timeout); oracle = accounting identities")
LEVEL_TEXT = ("per-call outcome vectors are enumerated exhaustively (5^n) for n<=3 set_power calls and sampled above, "
              "on generated battery data sets (C01 domain) and PV inverter sets; every Result observed is checked "
              "against the calls the fake API actually received. Fault enumeration at the API boundary, exploration "
              "over data.")
LEVEL_NOTE = ("fake API client and component graph; real status trackers fed with healthy data so all components are "
              "working when the request arrives; one request per manager instance (plus follow-up requests after "
              "failures in the sequence bucket)"
              ' Build phase: a battery group outside the request, request objects changed in flight, PV inverter without a reported bound, per-call latencies, fractional timeouts.')
RULE = ("battery: batdata generator (C01 domain) x outcome vector over the commanded inverters; pv: 1-6 solar inverters "
        "with arbitrary lower bounds, request negative/zero/positive, x outcome vector. distinct = canonical case "
        "JSON; non-trivial = >=2 set_power calls and at least one non-ok outcome or non-zero excess")
REQUIRED_BUCKETS = ["request-object-changed-by-its-owner-while-in-flight", "battery-group-outside-the-request-present", "pv-inverter-without-a-reported-bound",
                    "battery", "pv", "all-ok", "some-failed", "all-failed", "outcome:range", "outcome:client",
                    "outcome:exc", "outcome:hang", "excess-nonzero", "multi-inverter-group", "followup-request", "pv-concurrent-requests", "battery-concurrent-requests",
                    "reply-shortly-before-a-fractional-timeout", "unusable-battery-group-requested", "calls-answer-after-different-delays"]
REQUIRED_COUNTERS = ["results_checked", "set_power_calls_observed"]
ASSUMPTIONS = ["API boundary faked; timeouts in virtual time (5 s)"]

TIMEOUT = 5.0


def budget(tier: str) -> dict[str, Any]:
    if tier == "quick":
        return {"shards": 8, "cases": 220}
    return {"shards": 32, "cases": 1000, "hashseeds": [0, 1, 2, 3]}


def _outcome_vectors(rng: Any, n: int) -> list[list[str]]:
    if n <= 3:
        return [list(v) for v in itertools.product(fakes.OUTCOMES, repeat=n)]
    vs = [["ok"] * n, ["hang"] * n]
    for _ in range(40):
        vs.append([rng.choice(fakes.OUTCOMES) if rng.random() < 0.6 else "ok" for _ in range(n)])
    return vs


def gen(rng: Any, tier: str, i: int) -> Any:
    if rng.random() < 0.6:
        case = None
        while case is None:
            case = batdata.gen_case(rng, mode=rng.choice(["plain", "multi", "deficit"]))
            if case is not None and len(case["groups"]) > 3:
                case = None
        case["exp"] = 1.0  # the manager uses its own exponent (1.0)
        n_inv = sum(len(g["invs"]) for g in case["groups"])
        case["kind"] = "battery"
        vec = rng.choice(_outcome_vectors(rng, n_inv)) if n_inv > 3 else None
        case["vectors"] = [vec] if vec else "exhaustive"
        case["timeout"] = rng.choice([5.0, 5.0, 2.5, 0.5])
        case["latency"] = rng.choice([0.0, 0.0, 0.3, 4.9]) if case["timeout"] == 5.0 else \
            rng.choice([0.0, 0.8 * case["timeout"], 0.96 * case["timeout"]])
        case["followup"] = rng.random() < 0.3
        if rng.random() < 0.5:
            # calls of one request answer after different delays (an early error next to a slower success)
            tmo = case["timeout"]
            case["lat_vec"] = [rng.choice([0.0, 0.0, 0.06 * tmo, 0.2 * tmo, 0.9 * tmo]) for _ in range(n_inv)]
        if case["latency"] >= 0.3 and not case.get("lat_vec") and rng.random() < 0.4:
            case["reuse_request"] = True  # the Request object is changed by its owner while it is in flight
        if rng.random() < 0.3:
            # the microgrid has one more battery group, healthy and streaming, that the request does not name
            case["bystander"] = True
        if len(case["groups"]) >= 2 and rng.random() < 0.3:
            # two requests for disjoint battery groups in flight at the same time (the distributing actor processes
            # requests for disjoint component sets concurrently): each result accounts for its own request
            cut = rng.randint(1, len(case["groups"]) - 1)
            share = cut / len(case["groups"])
            case["bat_concurrent"] = {"cut": cut, "power1": round(case["power"] * share, 3),
                                      "power2": round(case["power"] * (1 - share) * rng.choice([1.0, -0.5, 0.25]), 3)}
            case["latency"] = 0.3 if case["timeout"] == 5.0 else 0.8 * case["timeout"]
            case.pop("lat_vec", None)
            case.pop("reuse_request", None)
            case["followup"] = False
        elif len(case["groups"]) >= 2 and rng.random() < 0.3:
            # one requested battery group is unusable (its batteries report SoC NaN): it must not be commanded and
            # must appear in neither component set of the result
            case["unusable"] = rng.randrange(len(case["groups"]))
        return case
    n = rng.choice([1, 2, 2, 3, 3, 4, 6])
    invs = [{"id": 10 + j, "il": -rng.choice([0.0, 100.0, 500.0, 1000.0, 5000.0, round(rng.uniform(0, 3000), 1)])}
            for j in range(n)]
    tot = sum(i["il"] for i in invs)
    power = rng.choice([tot, tot * 1.5 - 1.0, tot / 2, tot / 3 - 0.5, -1.0, 0.0, 250.0, round(rng.uniform(tot, 0), 2)])
    case = {"kind": "pv", "invs": invs, "power": power,
            "vectors": "exhaustive" if n <= 3 else [rng.choice(_outcome_vectors(rng, n))],
            "latency": rng.choice([0.0, 0.0, 0.3])}
    case["timeout"] = rng.choice([5.0, 5.0, 2.5, 0.5])
    if case["timeout"] != 5.0:
        # a reply shortly before a timeout that has a fractional part (or is below one second) is a success
        case["latency"] = rng.choice([0.0, 0.8 * case["timeout"], 0.96 * case["timeout"]])
    if rng.random() < 0.1:
        # one inverter does not report its lower bound (NaN in the data message)
        case["nan_bound"] = rng.randrange(n)
    if n >= 2 and rng.random() < 0.4:
        # two requests for disjoint inverter subsets in flight at the same time (the distributor processes
        # disjoint component groups concurrently)
        cut = rng.randint(1, n - 1)
        case["concurrent"] = {"cut": cut, "power2": rng.choice([-1.0, -250.0, sum(i["il"] for i in invs[cut:]) / 2, 0.0])}
        case["latency"] = rng.choice([0.3, 1.0]) if case["timeout"] == 5.0 else 0.8 * case["timeout"]
        case["vectors"] = [rng.choice(_outcome_vectors(rng, n)) for _ in range(3)]
    return case


# ------------------------------------------------------------------ drivers


async def _battery_run(case: dict[str, Any], vec: list[str], out: dict[str, Any]) -> None:
    from frequenz.channels import Broadcast
    from frequenz.quantities import Power

    from frequenz.sdk.microgrid._power_distributing._component_managers._battery_manager import \
        BatteryManager
    from frequenz.sdk.microgrid._power_distributing.request import Request

    groups = [([batdata.bat_id(g, j) for j in range(len(grp["bats"]))],
               [batdata.inv_id(g, j) for j in range(len(grp["invs"]))]) for g, grp in enumerate(case["groups"])]
    BY_BAT, BY_INV = 990, 995
    comps, conns = fakes.battery_topology(groups + ([([BY_BAT], [BY_INV])] if case.get("bystander") else []))
    api = fakes.install_connection_manager(comps, conns)
    inv_ids = [i for _, invs in groups for i in invs]
    for j, (iid, oc) in enumerate(zip(inv_ids, vec)):
        api.outcome[iid] = oc
        api.latency[iid] = case["lat_vec"][j] if case.get("lat_vec") else case.get("latency", 0.0)
    status_ch = Broadcast(name="status")
    res_ch = Broadcast(name="results")
    res_rx = res_ch.new_receiver(limit=100)
    status_rx = status_ch.new_receiver(limit=1000)
    hist: list[dict[str, Any]] = []

    async def _collect() -> None:
        # (the tracker sends one mutable status object again and again: snapshot it on arrival)
        async for st in status_rx:
            hist.append({"t": asyncio.get_event_loop().time(), "working": sorted(st.working), "uncertain": sorted(st.uncertain)})

    collector = asyncio.create_task(_collect())
    mgr = BatteryManager(status_ch.new_sender(), res_ch.new_sender(), timedelta(seconds=case.get("timeout", TIMEOUT)))
    await mgr.start()

    derate = case.get("derate")

    async def feed_all() -> None:
        now = datetime.now(timezone.utc)
        # (with a derating step to come, the inverters' messages are stamped a little before the batteries')
        inv_now = now - timedelta(seconds=0.3) if derate else now
        for g, grp in enumerate(case["groups"]):
            for j, b in enumerate(grp["bats"]):
                if case.get("unusable") == g:
                    b = dict(b, soc=float("nan"))
                await api.feed(batdata.bat_id(g, j), batdata.mk_battery(batdata.bat_id(g, j), b, now))
            for j, i in enumerate(grp["invs"]):
                await api.feed(batdata.inv_id(g, j), batdata.mk_inverter(batdata.inv_id(g, j), i, inv_now))

    first_feed = datetime.now(timezone.utc)

    async def feed_derated() -> None:
        # one inverter reports narrower bounds, in a message that is newer than its last one but stamped before the
        # newest battery message (other device, other clock); nothing else is sent
        g, j = derate["g"], derate["j"]
        i = dict(case["groups"][g]["invs"][j])
        i["il"], i["iu"] = i["il"] * derate["factor"], i["iu"] * derate["factor"]
        await api.feed(batdata.inv_id(g, j), batdata.mk_inverter(batdata.inv_id(g, j), i, first_feed - timedelta(seconds=0.1)))
        if case.get("bystander"):
            await api.feed(BY_BAT, batdata.mk_battery(BY_BAT, {"soc": 50.0, "lo": 10.0, "hi": 90.0, "cap": 5000.0, "il": -9000.0,
                                                             "el": 0.0, "eu": 0.0, "iu": 9000.0}, now))
            await api.feed(BY_INV, batdata.mk_inverter(BY_INV, {"il": -9000.0, "el": 0.0, "eu": 0.0, "iu": 9000.0}, now))

    await feed_all()
    await asyncio.sleep(0.5)
    all_bats = {b for bats, _ in groups for b in bats}
    conc = case.get("bat_concurrent")
    if conc:
        g1, g2 = groups[: conc["cut"]], groups[conc["cut"]:]
        req1 = Request(power=Power.from_watts(conc["power1"]), component_ids={b for bats, _ in g1 for b in bats}, adjust_power=True)
        req2 = Request(power=Power.from_watts(conc["power2"]), component_ids={b for bats, _ in g2 for b in bats}, adjust_power=True)

        async def second() -> None:
            await asyncio.sleep(0.1)  # starts while the first request's API calls are still pending
            await mgr.distribute_power(req2)

        api.calls.clear()
        await asyncio.gather(mgr.distribute_power(req1), second())
        results = []
        while res_rx._q:  # noqa: SLF001
            results.append(res_rx.consume())
        for req, grp, pw in ((req1, g1, conc["power1"]), (req2, g2, conc["power2"])):
            invs = {i for _, ii in grp for i in ii}
            mine = [r for r in results if r.request is req]
            out["rounds"].append({"result": mine[0] if mine else None, "calls": [dict(c) for c in api.calls if c["id"] in invs],
                                  "request": req, "extra_results": [repr(r)[:200] for r in mine[1:]], "power_at_call": pw,
                                  "t_done": asyncio.get_event_loop().time(), "concurrent": True,
                                  "inv_bats": {**{i: sorted(bats) for bats, ii in groups for i in ii}, BY_INV: [BY_BAT]}})
        await asyncio.sleep(0.05)
        collector.cancel()
        out["pool_status"] = hist
        await mgr.stop()
        return
    n_req = 2 if case.get("followup") else 1
    for k in range(n_req):
        api.calls.clear()
        req = Request(power=Power.from_watts(case["power"]), component_ids=set(all_bats),
                      adjust_power=bool(case.get("adjust", True)))
        if case.get("reuse_request") and k == 0:
            # the caller re-uses its (mutable) Request object for the next request while this one is still in flight:
            # the result is about the power that was requested when distribute_power() was called
            async def _reuse(r: Any = req) -> None:
                await asyncio.sleep(0.05)
                r.power = Power.from_watts(case["power"] * 0.4)

            reuser = asyncio.create_task(_reuse())
            await mgr.distribute_power(req)
            await asyncio.wait([reuser])
        else:
            await mgr.distribute_power(req)
        res = res_rx.consume() if res_rx._q else None  # noqa: SLF001
        extra = []
        while res_rx._q:  # noqa: SLF001  (exactly one result per processed request)
            extra.append(repr(res_rx.consume())[:200])
        out["rounds"].append({"result": res, "calls": [dict(c) for c in api.calls], "request": req, "extra_results": extra,
                              "power_at_call": case["power"], "t_done": asyncio.get_event_loop().time(),
                              "inv_bats": {**{i: sorted(bats) for bats, invs in groups for i in invs}, BY_INV: [BY_BAT]}})
        if k + 1 < n_req:
            await asyncio.sleep(0.2)
            await (feed_derated() if derate else feed_all())
            await asyncio.sleep(0.2)
            for iid in inv_ids:
                api.outcome[iid] = "ok"
    # what the manager told the pool-status channel (C16, manager tier)
    await asyncio.sleep(0.05)
    collector.cancel()
    out["pool_status"] = hist
    await mgr.stop()


async def _pv_run(case: dict[str, Any], vec: list[str], out: dict[str, Any]) -> None:
    from frequenz.channels import Broadcast
    from frequenz.quantities import Power

    from frequenz.sdk.microgrid._power_distributing._component_managers import PVManager
    from frequenz.sdk.microgrid._power_distributing.request import Request

    ids = [i["id"] for i in case["invs"]]
    comps, conns = fakes.pv_topology(ids)
    api = fakes.install_connection_manager(comps, conns)
    for iid, oc in zip(ids, vec):
        api.outcome[iid] = oc
        api.latency[iid] = case.get("latency", 0.0)
    status_ch = Broadcast(name="status")
    res_ch = Broadcast(name="results")
    res_rx = res_ch.new_receiver(limit=100)
    mgr = PVManager(status_ch.new_sender(), res_ch.new_sender(), timedelta(seconds=case.get("timeout", TIMEOUT)))
    await mgr.start()
    now = datetime.now(timezone.utc)
    for j, inv in enumerate(case["invs"]):
        il = float("nan") if case.get("nan_bound") == j else inv["il"]
        await api.feed(inv["id"], batdata.mk_inverter(inv["id"], {"il": il, "el": 0.0, "eu": 0.0, "iu": 0.0}, now))
    await asyncio.sleep(0.5)
    conc = case.get("concurrent")
    if conc:
        ids1, ids2 = ids[: conc["cut"]], ids[conc["cut"]:]
        req1 = Request(power=Power.from_watts(case["power"]), component_ids=set(ids1), adjust_power=True)
        req2 = Request(power=Power.from_watts(conc["power2"]), component_ids=set(ids2), adjust_power=True)

        async def second() -> None:
            await asyncio.sleep(0.1)  # starts while the first request's API calls are still pending
            await mgr.distribute_power(req2)

        await asyncio.gather(mgr.distribute_power(req1), second())
        results = []
        while res_rx._q:  # noqa: SLF001
            results.append(res_rx.consume())
        for req, sub in ((req1, ids1), (req2, ids2)):
            res = next((r for r in results if r.request is req), None)
            out["rounds"].append({"result": res, "calls": [dict(c) for c in api.calls if c["id"] in sub], "request": req,
                                  "inv_bats": {i: [i] for i in ids}, "concurrent": True})
        await mgr.stop()
        return
    req = Request(power=Power.from_watts(case["power"]), component_ids=set(ids), adjust_power=True)
    await mgr.distribute_power(req)
    res = res_rx.consume() if res_rx._q else None  # noqa: SLF001
    extra = []
    while res_rx._q:  # noqa: SLF001
        extra.append(repr(res_rx.consume())[:200])
    out["rounds"].append({"result": res, "calls": [dict(c) for c in api.calls], "request": req, "extra_results": extra,
                          "inv_bats": {i: [i] for i in ids}})
    await mgr.stop()


# ------------------------------------------------------------------ oracle


def _judge(case: dict[str, Any], vec: list[str], rnd: dict[str, Any], rec: Any, first: bool) -> None:
    from frequenz.sdk.microgrid._power_distributing.result import (Error, OutOfBounds,
                                                                   PartialFailure, Success)

    res, calls, req = rnd["result"], rnd["calls"], rnd["request"]
    p = rnd.get("power_at_call", req.power.as_watts())
    t = tol(p)
    rec.count("set_power_calls_observed", len(calls))
    w: dict[str, Any] = {"kind": case["kind"], "power": p, "outcomes": vec,
                         "calls": [{k: c[k] for k in ("id", "watts", "outcome", "cancelled")} for c in calls],
                         "result": repr(res)[:600]}
    if res is None:
        rec.violation("no-result-for-processed-request", w)
        return
    if rnd.get("extra_results"):
        rec.violation("more-than-one-result-for-one-request", {**w, "further_results": rnd["extra_results"][:3]})
    if isinstance(res, OutOfBounds):
        # the request sits exactly on the advertised exclusion bound; advertised (per-group sums) and enforced
        # (sums over all components) add the same numbers in different orders: last-ulp sliver, counted
        b = res.bounds
        beyond_incl = not (b.inclusion_lower - 1e-9 <= p <= b.inclusion_upper + 1e-9)
        for edge in (b.exclusion_lower, b.exclusion_upper):
            if edge != 0 and abs(p - edge) <= 1e-9 * max(1.0, abs(edge)) and not (beyond_incl and not case.get("adjust", True)):
                rec.violation("request-on-the-advertised-exclusion-bound-refused", {**w, "enforced_exclusion": [b.exclusion_lower, b.exclusion_upper]})
                return
    if isinstance(res, (Error, OutOfBounds)):
        if first and (case["kind"] == "pv" or abs(p) > 0):
            # in-domain request with complete healthy data must not be refused
            rec.violation("in-domain-request-refused", w)
        return
    rec.count("results_checked")
    succ = res.succeeded_power.as_watts()
    exc = res.excess_power.as_watts()
    failed = res.failed_power.as_watts() if isinstance(res, PartialFailure) else 0.0
    fcomp = set(res.failed_components) if isinstance(res, PartialFailure) else set()
    scomp = set(res.succeeded_components)
    w.update({"succeeded_power": succ, "failed_power": failed, "excess_power": exc,
              "succeeded_components": sorted(scomp), "failed_components": sorted(fcomp)})
    import math

    if not all(math.isfinite(x) for x in (succ, failed, exc)) or not all(math.isfinite(c["watts"]) for c in calls):
        rec.violation("non-finite-power-in-result-or-set-point", w)
        return
    if abs(exc) > t:
        rec.bucket("excess-nonzero")
    if abs(succ + failed + exc - p) > t:
        rec.violation("powers-do-not-add-up-to-request", {**w, "sum": succ + failed + exc})
    if scomp & fcomp:
        rec.violation("succeeded-and-failed-components-overlap", w)
    if any(c["id"] == 995 for c in calls) or 990 in (scomp | fcomp):
        rec.violation("component-outside-the-request-was-commanded-or-reported", w)
        return
    addressed = {b for c in calls for b in rnd["inv_bats"][c["id"]]}
    if case.get("unusable") is not None and case["kind"] == "battery":
        dead = {batdata.bat_id(case["unusable"], j) for j in range(len(case["groups"][case["unusable"]]["bats"]))}
        if dead & addressed:
            rec.violation("unusable-battery-group-was-commanded", {**w, "unusable": sorted(dead)})
        if dead & (scomp | fcomp):
            rec.violation("unusable-battery-reported-as-succeeded-or-failed", {**w, "unusable": sorted(dead)})
    if scomp | fcomp != addressed:
        rec.violation("component-sets-differ-from-addressed-components", {**w, "addressed": sorted(addressed)})
    bad_calls = [c for c in calls if c["outcome"] != "ok"]
    exp_failed = sum(c["watts"] for c in bad_calls)
    if abs(failed - exp_failed) > t:
        rec.violation("failed-power-differs-from-failed-set-points", {**w, "expected_failed_power": exp_failed})
    exp_fcomp = {b for c in bad_calls for b in rnd["inv_bats"][c["id"]]}
    if fcomp != exp_fcomp:
        rec.violation("failed-components-differ-from-failed-calls", {**w, "expected_failed": sorted(exp_fcomp)})
    for c in calls:
        if c["outcome"] == "hang" and not c["cancelled"]:
            rec.violation("timed-out-call-not-cancelled", w)
    if isinstance(res, Success) != (not bad_calls):
        rec.violation("success-iff-no-call-failed", w)
    # C01 manager level: the power reported as set is the power commanded
    commanded = sum(c["watts"] for c in calls)
    if abs(commanded - (p - exc)) > t:
        rec.violation("commanded-power-differs-from-request-minus-excess", {**w, "commanded": commanded})
    if not bad_calls and abs(commanded - succ) > t:
        rec.violation("succeeded-power-differs-from-commanded-power", {**w, "commanded": commanded})
    ids = [c["id"] for c in calls]
    if len(ids) != len(set(ids)):
        rec.violation("component-commanded-twice-in-one-request", w)


def check(case: dict[str, Any], rec: Any) -> None:
    import random

    rec.bucket(case["kind"])
    if case.get("bystander"):
        rec.bucket("battery-group-outside-the-request-present")
    if case.get("reuse_request"):
        rec.bucket("request-object-changed-by-its-owner-while-in-flight")
    if case.get("nan_bound") is not None:
        rec.bucket("pv-inverter-without-a-reported-bound")
    if case.get("unusable") is not None:
        rec.bucket("unusable-battery-group-requested")
    if case.get("lat_vec") and len(set(case["lat_vec"])) > 1:
        rec.bucket("calls-answer-after-different-delays")
    if case.get("timeout", TIMEOUT) != TIMEOUT and case.get("latency", 0.0) > 0:
        rec.bucket("reply-shortly-before-a-fractional-timeout")
    n = sum(len(g["invs"]) for g in case["groups"]) if case["kind"] == "battery" else len(case["invs"])
    if case["kind"] == "battery" and any(len(g["invs"]) > 1 for g in case["groups"]):
        rec.bucket("multi-inverter-group")
    vectors = case["vectors"]
    if vectors == "exhaustive":
        vectors = _outcome_vectors(random.Random(0), n)
        rec.count("exhaustive_outcome_spaces")
    any_bad = False
    observed = []
    for vec in vectors:
        out: dict[str, Any] = {"rounds": []}
        mon = LoopMonitor()
        drv = _battery_run if case["kind"] == "battery" else _pv_run
        run_virtual(lambda: drv(case, vec, out), monitor=mon)  # pylint: disable=cell-var-from-loop
        for oc in set(vec):
            rec.bucket("outcome:" + oc) if oc != "ok" else None
        nbad = sum(1 for v in vec if v != "ok")
        rec.bucket("all-ok" if nbad == 0 else ("all-failed" if nbad == len(vec) else "some-failed"))
        any_bad = any_bad or nbad > 0
        for k, rnd in enumerate(out["rounds"]):
            if rnd.get("concurrent"):
                rec.bucket("pv-concurrent-requests" if case["kind"] == "pv" else "battery-concurrent-requests")
                # (a share of the pool's request is not necessarily inside the sub-pool's bounds: refusals are not judged)
                _judge(case, vec, rnd, rec, first=case["kind"] == "pv")
                continue
            if k > 0:
                rec.bucket("followup-request")
            _judge(case, vec if k == 0 else ["ok"] * len(vec), rnd, rec, first=(k == 0))
        if mon.loop_exceptions:
            rec.count("loop_exceptions", len(mon.loop_exceptions))
        if len(observed) < 2 and out["rounds"]:
            observed.append({"outcomes": vec, "result": repr(out["rounds"][0]["result"])[:300]})
    rec.nontrivial(n >= 2 and any_bad)
    rec.observed(observed)


FINDINGS: dict[str, Any] = {}

LEVEL_NOTE += ' Rounds 13-14: concurrent battery requests for disjoint groups.'
