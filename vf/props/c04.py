"""C04 — lower-priority preferences are honoured only inside higher-priority bounds.

Monitor: calculate_target_power result, get_status(...).bounds and _Report.adjust_to_bounds of
the real Matryoshka; oracle = independent reference of the statement + the *adoption* relation
between the two code paths + null-proposal equivalence.
"""

from __future__ import annotations

from typing import Any

from .. import pm

ID = "C04"
LEVEL = "exploration"
TECHNIQUE = ("runtime monitor: real Matryoshka target / reported bounds / adjust_to_bounds vs an independent "
             "reference model and vs each other (adoption relation) on generated conflict-free proposal sets")
LEVEL_TEXT = ("held on N generated conflict-free proposal sets x ~13 probe powers per actor placed on, 1 W inside and "
              "1 W outside every interval end involved; the relation between get_status and _calc_target_power is "
              "decided by adoption (propose x, observe whether x is adopted unchanged). Exploration only.")
LEVEL_NOTE = ("domain = conflict-free sets with distinct priorities (ties are observed and reported separately); a ~0 "
              "preference strictly inside the exclusion zone is a don't-care (statement and code are not "
              "self-consistent there, see DESIGN.md C04); powers compared to 1e-6 W"
              " Build phase: plus C03's pool-handle tier (bounds that BatteryPool.propose_* put into proposals).")
RULE = ("random system bounds/zone x 1-5 proposals with distinct priorities biased to compatible bounds; probes at "
        "each end of the reported bounds +-1 W, zone edges +-1 W and 0. distinct = canonical case JSON; non-trivial = "
        "conflict-free and (>=2 proposals with a preference or a bounds-narrowing higher-priority proposal)")
REQUIRED_BUCKETS = ["pool-handle-tier(proposals as BatteryPool.propose_* builds them)", "conflict-free-set", "zone-present", "no-zone", "narrowed-by-higher-priority",
                    "probe-adopted", "probe-rejected", "probe-in-zone", "null-proposal-added", "two-candidates",
                    "update-prefers-the-previous-target", "second-component-set-evaluated-last",
                    "same-source-id-at-two-priorities", "bounds-strictly-inside-the-exclusion-zone-ignored", "history:system-bounds-moved", "history:proposals-expired",
                    "history:a-higher-priority-proposal-expired"]
REQUIRED_COUNTERS = ["targets_vs_reference", "adoption_probes", "adjust_to_bounds_probes", "null_proposal_checks",
                     "update_steps_checked", "history_steps_checked"]
ASSUMPTIONS = ["reference model vf/pm.reference encodes the statement; conflicting sets are left to C03"]


def budget(tier: str) -> dict[str, Any]:
    if tier == "quick":
        return {"shards": 8, "cases": 10000}
    return {"shards": 32, "cases": 40000, "hashseeds": [0, 1, 2, 3, 4, 5, 6, 7]}


def gen(rng: Any, tier: str, i: int) -> Any:
    if rng.random() < 0.03:
        # the proposals as the pools build them (BatteryPool.propose_power / propose_charge / propose_discharge): the
        # bounds a pool method puts into a proposal decide what lower-priority actors may still do (C03's driver/oracle)
        from . import c03

        return c03._gen_handles(rng)  # noqa: SLF001
    sys, excl = pm.gen_sys(rng)
    n = rng.choice([1, 2, 2, 3, 3, 4, 5])
    props = pm.gen_props(rng, n, distinct_prio=rng.random() < 0.9, compat_bias=0.95)
    if rng.random() < 0.2 and (excl[0] != 0 or excl[1] != 0):
        rng.choice(props)["pref"] = (excl[0] + excl[1]) / 2 if rng.random() < 0.7 else excl[0] / 2
    return {"sys": sys, "excl": excl, "props": props}


def _feed(props: list[dict[str, Any]], sb: Any) -> Any:
    m = pm.new_matryoshka()
    for p in props:
        m.calculate_target_power(pm.CID, pm.mk_proposal(p), sb, True)
    return m


def _tgt(m: Any, sb: Any) -> float | None:
    t = m.calculate_target_power(pm.CID, None, sb, True)
    return None if t is None else t.as_watts()


def check(case: dict[str, Any], rec: Any) -> None:
    if case.get("kind") == "pool-handles":
        from . import c03

        c03._check_handles(case, rec)  # noqa: SLF001
        return
    sys, excl, props = case["sys"], case["excl"], case["props"]
    sl, su = sys
    el, eu = excl
    zone = el != 0 or eu != 0
    sb = pm.mk_sysbounds(sys, excl)
    ref = pm.reference(props, sl, su, el, eu)
    if ref is None:
        # bounds that lie strictly inside the exclusion zone cannot be honoured by anybody and are ignored by design;
        # a set that is conflict-free apart from such bounds is judged with them left out
        ref = pm.reference(props, sl, su, el, eu, ignore_bounds_inside_zone=True)
        if ref is not None:
            rec.bucket("bounds-strictly-inside-the-exclusion-zone-ignored")
    if ref is None:
        rec.bucket("conflicting-set(skipped)")
        return
    ties = len({p["prio"] for p in props}) < len(props)
    rec.bucket("conflict-free-set")
    rec.bucket("zone-present" if zone else "no-zone")
    m = _feed(props, sb)
    t = _tgt(m, sb)
    # the same manager object also serves another component set, with another exclusion zone, evaluated last: what
    # it reports for this set must not depend on that
    CID2 = frozenset({77})
    sb2 = pm.mk_sysbounds([sl - 50.0, su + 50.0], [-(abs(el) + 37.0), abs(eu) + 23.0])
    m.calculate_target_power(CID2, pm.mk_proposal({"src": "other-set", "prio": 1, "pref": 5.0, "lo": None, "hi": None}, cid=CID2),
                             sb2, True)
    rec.bucket("second-component-set-evaluated-last")
    if len({p["src"] for p in props}) < len(props):
        rec.bucket("same-source-id-at-two-priorities")
    rec.count("targets_vs_reference")
    if len(ref["candidates"]) > 1:
        rec.bucket("two-candidates")
    if t is None or not any(abs(t - c) <= 1e-6 for c in ref["candidates"]):
        rec.violation("target-not-closest-admissible", {"target": t, "reference_candidates": sorted(ref["candidates"]),
                                                        "interval": ref["interval"]})
    n_pref = sum(1 for p in props if p["pref"] is not None)
    narrowed = False

    # (4) an actor replaces its proposal the way the power manager feeds them (must_return_power=False): the stored
    # target (get_target_power) is that of the *current* proposal set, also when the new preference happens to equal
    # the previous target and only the bounds moved
    import random as _random

    ur = _random.Random(case.get("useed", len(props) * 7919 + int(abs(sl) + abs(su))))
    m3 = _feed(props, sb)
    cur = [dict(p) for p in props]
    t_prev = t
    for _ in range(3):
        i = ur.randrange(len(cur))
        newp = dict(cur[i])
        newp["pref"] = ur.choice([t_prev, t_prev, None, ur.choice(pm.VALS)])
        newp["lo"] = ur.choice([None, None] + [v for v in pm.VALS if v <= 0])
        newp["hi"] = ur.choice([None, None] + [v for v in pm.VALS if v >= 0])
        nxt = cur[:i] + [newp] + cur[i + 1:]
        ref3 = pm.reference(nxt, sl, su, el, eu)
        if ref3 is None:
            break  # the update would make the set conflicting: outside this property
        cur = nxt
        r = m3.calculate_target_power(pm.CID, pm.mk_proposal(newp), sb, False)
        stored = m3.get_target_power(pm.CID)
        rec.count("update_steps_checked")
        if newp["pref"] is not None and t_prev is not None and abs(newp["pref"] - t_prev) <= 1e-9:
            rec.bucket("update-prefers-the-previous-target")
        sw = None if stored is None else stored.as_watts()
        w3 = {"updated_actor": newp, "stored_target": sw, "returned": None if r is None else r.as_watts(),
              "reference_candidates": sorted(ref3["candidates"]), "previous_target": t_prev, "proposals": cur}
        if sw is None or not any(abs(sw - c) <= 1e-6 for c in ref3["candidates"]):
            rec.violation("stored-target-stale-or-wrong-after-an-update", w3)
            break
        if r is not None and not abs(r.as_watts() - sw) <= 1e-6:
            rec.violation("returned-target-differs-from-stored-target", w3)
            break
        t_prev = sw

    # (5) the life of ONE manager object, driven the way the power-managing actor drives it: proposals arrive and are
    # refreshed, the system bounds move (a bounds sample: proposal None, must_return_power False), old proposals
    # expire (drop_old_proposals on the actor's timer), and after every event a status is produced for every actor.
    # Whatever happened before, the stored target and the reported bounds are those of the *current* proposal set
    # under the *current* system bounds - i.e. what a fresh object fed with exactly that set says.
    if not ties:
        _history(case, props, sys, excl, rec, ur)

    # (3) a proposal with neither power nor bounds is equivalent to no proposal
    prios = sorted({p["prio"] for p in props})
    for slot in {prios[0] - 1, prios[-1] + 1, prios[len(prios) // 2]}:
        if any(p["prio"] == slot for p in props) and not ties:
            slot_src = "zz-null"  # same priority, later source id: still must change nothing
        else:
            slot_src = "null"
        null = {"src": slot_src, "prio": slot, "pref": None, "lo": None, "hi": None}
        m2 = _feed(props + [null], sb)
        t2 = _tgt(m2, sb)
        rec.count("null_proposal_checks")
        rec.bucket("null-proposal-added")
        if t2 is None or t is None or not abs(t2 - t) <= 1e-6:
            rec.violation("null-proposal-changes-target", {"without": t, "with": t2, "null_priority": slot})
        for p in props:
            b1 = m.get_status(pm.CID, p["prio"], sb).bounds
            b2 = m2.get_status(pm.CID, p["prio"], sb).bounds
            # reported bounds may legitimately contain part of the zone: compare the usable ranges
            u1 = pm.carve(b1.lower.as_watts(), b1.upper.as_watts(), el, eu)
            u2 = pm.carve(b2.lower.as_watts(), b2.upper.as_watts(), el, eu)
            if u1 != u2:
                rec.violation("null-proposal-changes-reported-bounds",
                              {"actor": p["src"], "without": repr(b1), "with": repr(b2), "null_priority": slot})

    if ties:
        rec.observe("ties-present:adoption-relation-not-judged")
        rec.nontrivial(False)
        return

    # (2) adoption relation between get_status and _calc_target_power, per actor
    for p in props:
        rep = m.get_status(pm.CID, p["prio"], sb)
        B = rep.bounds
        if B is None:
            rec.violation("no-bounds-reported", {"actor": p["src"]})
            continue
        lo, hi = B.lower.as_watts(), B.upper.as_watts()
        higher = [q for q in props if q["prio"] > p["prio"]]
        if (lo, hi) != (sl, su):
            narrowed = True
            rec.bucket("narrowed-by-higher-priority")
        if lo > hi:
            rec.violation("reported-bounds-empty-on-conflict-free-set", {"actor": p["src"], "bounds": [lo, hi]})
            continue
        probes = {lo, hi, lo - 1, hi + 1, lo + 1, hi - 1, 0.0, el, eu, el - 1, eu + 1, el + 1, eu - 1}
        for x in sorted(probes):
            m2 = _feed(higher + [dict(p, pref=x)], sb)
            tx = _tgt(m2, sb)
            in_zone = zone and el < x < eu
            if in_zone and abs(x) < 1e-9:
                rec.count("zero-in-zone-dontcare")
                continue
            inside = (lo <= x <= hi) and not in_zone
            rec.count("adoption_probes")
            if in_zone:
                rec.bucket("probe-in-zone")
            w = {"actor": p["src"], "priority": p["prio"], "reported_bounds": [lo, hi], "probe": x, "target": tx,
                 "zone": [el, eu]}
            adopted = tx is not None and abs(tx - x) <= 1e-9
            if inside and not adopted:
                rec.violation("inside-reported-bounds-but-not-adopted", w)
            elif not inside and adopted:
                rec.violation("outside-reported-bounds-but-adopted", w)
            rec.bucket("probe-adopted" if adopted else "probe-rejected")
            adj = rep.adjust_to_bounds(pm.W(x))
            rec.count("adjust_to_bounds_probes")
            same = adj[0] is not None and adj[1] is not None and adj[0].as_watts() == x and adj[1].as_watts() == x
            if inside != same:
                rec.violation("adjust_to_bounds-disagrees-with-reported-bounds",
                              {**w, "adjust_to_bounds": [None if a is None else a.as_watts() for a in adj]})
    rec.nontrivial(n_pref >= 2 or narrowed)
    rec.observed({"target": t, "reference_candidates": sorted(ref["candidates"])})


def _history(case: dict[str, Any], props: list[dict[str, Any]], sys: list[float], excl: list[float], rec: Any, ur: Any) -> None:
    MAXAGE = 60.0
    now = 0.0
    cur = [dict(p, t=ur.choice([0.0, 0.0, 20.0, 40.0])) for p in props]
    cur.sort(key=lambda q: q["t"])
    sys_cur, excl_cur = list(sys), list(excl)
    sb_cur = pm.mk_sysbounds(sys_cur, excl_cur)
    mh = pm.new_matryoshka(MAXAGE)
    for q in cur:
        mh.calculate_target_power(pm.CID, pm.mk_proposal(q), sb_cur, False)
    now = max(q["t"] for q in cur)
    trail: list[Any] = []

    def statuses() -> None:
        for q in cur:
            mh.get_status(pm.CID, q["prio"], sb_cur)

    statuses()
    for _ in range(ur.choice([2, 3, 4, 5])):
        kind = ur.choice(["bounds", "bounds", "expire", "expire", "refresh", "update"])
        if kind == "bounds":
            f = ur.choice([0.5, 2.0, 1.0])
            sys_cur = [min(sys[0] * f, 0.0) if ur.random() < 0.7 else sys_cur[0], max(sys[1] * f, 0.0) if ur.random() < 0.7 else sys_cur[1]]
            if ur.random() < 0.3:
                excl_cur = ur.choice([[0.0, 0.0], [-10.0, 10.0], list(excl)])
            sb_cur = pm.mk_sysbounds(sys_cur, excl_cur)
            now += 1.0
            mh.calculate_target_power(pm.CID, None, sb_cur, False)
            rec.bucket("history:system-bounds-moved")
        elif kind == "expire":
            oldest = min(q["t"] for q in cur)
            now = max(now, oldest + MAXAGE + 0.5)
            mh.drop_old_proposals(now)
            gone = [q for q in cur if now - q["t"] > MAXAGE]
            cur = [q for q in cur if now - q["t"] <= MAXAGE]
            if not cur:
                break
            rec.bucket("history:proposals-expired")
            if any(g["prio"] > min(q["prio"] for q in cur) for g in gone):
                rec.bucket("history:a-higher-priority-proposal-expired")
        elif kind == "refresh":
            now += ur.choice([5.0, 30.0])
            i = ur.randrange(len(cur))
            cur[i] = dict(cur[i], t=now)
            mh.calculate_target_power(pm.CID, pm.mk_proposal(cur[i]), sb_cur, False)
        else:
            now += 1.0
            i = ur.randrange(len(cur))
            cur[i] = dict(cur[i], t=now, pref=ur.choice([None, ur.choice(pm.VALS)]))
            mh.calculate_target_power(pm.CID, pm.mk_proposal(cur[i]), sb_cur, False)
        trail.append({"step": kind, "now": now, "sys": list(sys_cur), "excl": list(excl_cur)})
        ref = pm.reference(cur, sys_cur[0], sys_cur[1], excl_cur[0], excl_cur[1])
        if ref is None:
            return  # the history left the conflict-free domain
        rec.count("history_steps_checked")
        # reported bounds, right after the event (the actor sends its reports after every event)
        fresh = _feed(cur, sb_cur)
        for q in cur:
            b1 = mh.get_status(pm.CID, q["prio"], sb_cur).bounds
            b2 = fresh.get_status(pm.CID, q["prio"], sb_cur).bounds
            u1 = pm.carve(b1.lower.as_watts(), b1.upper.as_watts(), excl_cur[0], excl_cur[1])
            u2 = pm.carve(b2.lower.as_watts(), b2.upper.as_watts(), excl_cur[0], excl_cur[1])
            if u1 != u2:
                rec.violation("reported-bounds-depend-on-the-history-of-the-manager-object",
                              {"actor": q["src"], "priority": q["prio"], "reported": [b1.lower.as_watts(), b1.upper.as_watts()],
                               "a_fresh_object_with_the_same_proposals_reports": [b2.lower.as_watts(), b2.upper.as_watts()],
                               "live_proposals": cur, "history": trail})
                return
        if kind == "expire":
            # an expiry alone does not recalculate (the next event does): the next bounds sample arrives within a second
            now += 1.0
            mh.calculate_target_power(pm.CID, None, sb_cur, False)
        stored = mh.get_target_power(pm.CID)
        sw = None if stored is None else stored.as_watts()
        if sw is None or not any(abs(sw - c) <= 1e-6 for c in ref["candidates"]):
            rec.violation("stored-target-depends-on-the-history-of-the-manager-object",
                          {"stored_target": sw, "reference_candidates": sorted(ref["candidates"]), "live_proposals": cur,
                           "history": trail})
            return
        statuses()


FINDINGS: dict[str, Any] = {}

LEVEL_NOTE += ' Rounds 13-14: the life of one manager object (bounds samples, expiry, statuses after every event); sets that are conflict-free apart from bounds strictly inside the exclusion zone (ignored by design).'
