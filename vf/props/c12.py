"""C12 — generated microgrid power formulas balance for every topology.

Monitor: the real formula generators run against a real _MicrogridComponentGraph built from a
generated topology; the generated engines' real FormulaSteps are applied to a physical power
assignment (every MetricFetcher primed with the simulated reading of its component).
Oracle: physical model (a meter reads the sum of what is below it plus its own unmetered load).
"""

from __future__ import annotations

import math
from datetime import datetime, timezone
from typing import Any
from unittest.mock import MagicMock

ID = "C12"
LEVEL = "exploration"
TECHNIQUE = ("runtime monitor: outputs of the real formula generators' engines (their own FormulaSteps applied to a "
             "simulated physical assignment, incl. every lazily generated fallback formula) vs a physical reference "
             "model over generated valid component graphs; topology-shape coverage buckets")
LEVEL_TEXT = ("held (apart from the listed known findings) on N generated valid graphs x 3 power assignments x 7 "
              "formula kinds x allow_fallback on/off: each formula equals the true total of its device class and "
              "grid == consumer + producer + battery + EV. Exploration over graphs; shapes outside the generator are "
              "not covered.")
LEVEL_NOTE = ("physical model: device powers are free, a meter reads the sum of its successors plus an unmetered load "
              "that is non-zero only at meters not dedicated to one device type; CHPs and batteries have no power "
              "stream of their own (read as missing); graphs rejected by validate() are counted, not used"
              ' Build phase: generators asked for sub-sets of the devices; batteries fed from two feeders; grid-meter fallback judged.')
RULE = ("seeded random graphs: grid with one grid meter or 1-4 arbitrary successors, meters nested to depth 4, "
        "dedicated / mixed / load-only meters, battery inverters with 1-2 batteries, PV inverters, EV chargers, CHPs "
        "behind a CHP meter. distinct = canonical graph+assignment JSON; non-trivial = >=2 device classes present "
        "and >=1 meter")
REQUIRED_BUCKETS = ["battery-fed-by-inverters-behind-different-meters", "graph-object-refreshed-from-another-topology", "battery-pool-store-for-all-batteries", "formula-for-a-sub-set-of-the-devices", "no-grid-meter", "single-grid-meter", "several-grid-successors", "nested-meters",
                    "device-directly-under-grid", "grid-meter-over-one-device-kind-with-building-load", "mixed-meter", "dedicated-meter", "load-only-meter", "has-chp",
                    "has-battery", "has-pv", "has-ev", "fallback-formula-evaluated", "battery-behind-several-inverters"]
REQUIRED_COUNTERS = ["formulas_evaluated", "balance_checks", "graphs_valid"]
ASSUMPTIONS = ["formula steps are evaluated synchronously on one assignment (streaming is covered by C05/C06)"]

TS = datetime(2024, 1, 1, tzinfo=timezone.utc)
KINDS = ["grid", "consumer", "producer", "battery", "ev", "pv", "chp"]


def budget(tier: str) -> dict[str, Any]:
    if tier == "quick":
        return {"shards": 8, "cases": 600}
    return {"shards": 32, "cases": 15000, "hashseeds": [0, 1, 2, 3, 4, 5, 6, 7]}


def gen(rng: Any, tier: str, i: int) -> Any:
    nodes: list[list[Any]] = [[1, "grid"]]
    edges: list[list[int]] = []
    nid = [1]

    def new(kind: str) -> int:
        nid[0] += 1
        nodes.append([nid[0], kind])
        return nid[0]

    def add_device(parent: int, kind: str) -> None:
        if kind == "bat" and rng.random() < 0.25:
            # one battery (or two) served by two inverters
            invs = [new("batinv"), new("batinv")]
            for inv in invs:
                edges.append([parent, inv])
            for _ in range(rng.randint(1, 2)):
                b = new("bat")
                for inv in invs:
                    edges.append([inv, b])
        elif kind == "bat":
            inv = new("batinv")
            edges.append([parent, inv])
            for _ in range(rng.randint(1, 2)):
                edges.append([inv, new("bat")])
        elif kind == "pv":
            edges.append([parent, new("pvinv")])
        elif kind == "ev":
            edges.append([parent, new("ev")])
        elif kind == "chp":
            m = new("meter")
            edges.append([parent, m])
            for _ in range(rng.randint(1, 2)):
                edges.append([m, new("chp")])
        elif kind == "chp-bare":
            edges.append([parent, new("chp")])

    def add_meter(parent: int, depth: int) -> None:
        m = new("meter")
        edges.append([parent, m])
        style = rng.choice(["ded", "mixed", "load", "nest"])
        if style == "ded":
            k = rng.choice(["bat", "pv", "ev"])
            for _ in range(rng.randint(1, 3)):
                add_device(m, k)
        elif style == "load":
            return
        else:
            for _ in range(rng.randint(1, 4)):
                if rng.random() < 0.35 and depth < 4:
                    add_meter(m, depth + 1)
                else:
                    add_device(m, rng.choice(["bat", "pv", "ev", "chp", "chp"]))

    r0 = rng.random()
    if r0 < 0.05:
        # the grid meter is at the same time the (dedicated) meter of the CHPs
        gm = new("meter")
        edges.append([1, gm])
        for _ in range(rng.randint(1, 2)):
            add_device(gm, "chp-bare")
    elif r0 < 0.6:
        gm = new("meter")
        edges.append([1, gm])
        for _ in range(rng.randint(1, 5)):
            if rng.random() < 0.6:
                add_meter(gm, 1)
            else:
                add_device(gm, rng.choice(["bat", "pv", "ev", "chp"]))
    else:
        for _ in range(rng.randint(1, 4)):
            if rng.random() < 0.6:
                add_meter(1, 1)
            else:
                add_device(1, rng.choice(["bat", "pv", "ev", "chp"]))
    kinds = dict((n, k) for n, k in nodes)
    if rng.random() < 0.2:
        # a battery that is also fed by an inverter behind *another* meter (a bank with inverters on two feeders)
        par = {b: a for a, b in edges if kinds[b] == "batinv"}
        invs = sorted(par)
        pairs = [(x, y) for x in invs for y in invs if x < y and par[x] != par[y]]
        if pairs:
            x, y = rng.choice(pairs)
            bats_x = [b for a, b in edges if a == x and kinds[b] == "bat"]
            if bats_x and [y, bats_x[0]] not in edges:
                edges.append([y, bats_x[0]])
    children: dict[int, list[int]] = {n: [] for n, _ in nodes}
    for a, b in edges:
        children[a].append(b)
    assigns = []
    for _ in range(3):
        own = {}
        load = {}
        for n, k in nodes:
            if k == "batinv":
                own[n] = rng.choice([-1, 1]) * rng.randint(1, 1000)
            elif k in ("pvinv", "chp"):
                own[n] = -rng.randint(1, 1000)
            elif k == "ev":
                own[n] = rng.randint(1, 1000)
            elif k == "meter":
                ck = {kinds[c] for c in children[n]}
                dedicated = len(ck) == 1 and ck <= {"batinv", "pvinv", "ev", "chp"}
                # the grid meter (only successor of the grid) is never a dedicated device meter, even if all the
                # devices below it are of one kind: the building load is measured by it as well
                if dedicated and ck != {"chp"} and children[1] == [n]:
                    dedicated = False
                load[n] = 0 if dedicated else rng.choice([0, rng.randint(1, 1000)])
        assigns.append({"own": {str(k): v for k, v in own.items()}, "load": {str(k): v for k, v in load.items()}})
    return {"nodes": nodes, "edges": edges, "assigns": assigns}


def _build(case: dict[str, Any]) -> Any:
    from frequenz.client.microgrid import (Component, ComponentCategory, Connection,
                                           InverterType)

    from frequenz.sdk.microgrid.component_graph import _MicrogridComponentGraph

    C = ComponentCategory
    cat = {"grid": (C.GRID, None), "meter": (C.METER, None), "batinv": (C.INVERTER, InverterType.BATTERY),
           "pvinv": (C.INVERTER, InverterType.SOLAR), "bat": (C.BATTERY, None), "ev": (C.EV_CHARGER, None),
           "chp": (C.CHP, None)}
    comps = {Component(n, *cat[k]) for n, k in case["nodes"]}
    conns = {Connection(a, b) for a, b in case["edges"]}
    g = _MicrogridComponentGraph(comps, conns)
    g._verif_input = (comps, conns)  # noqa: SLF001  (harness attribute: what the graph was built from)
    return g


def _evaluate(engine: Any, values: dict[int, float | None], rec: Any, depth: int = 0,
              fail_primaries: bool = False) -> float:
    """Apply the engine's own steps to the assignment. Fetchers with a fallback whose primary reads
    missing are served from the (lazily generated) fallback formula, evaluated the same way."""
    from frequenz.quantities import Power

    from frequenz.sdk.timeseries import Sample
    from frequenz.sdk.timeseries.formula_engine._formula_steps import MetricFetcher

    b = engine._builder  # noqa: SLF001
    steps, _ = b.finalize() if not b._steps else (b._steps, None)  # noqa: SLF001
    stack: list[float] = []
    for step in steps:
        if isinstance(step, MetricFetcher):
            cid = int(repr(step)[1:])
            v = values.get(cid)
            fb = step._fallback  # noqa: SLF001
            if (v is None or fail_primaries) and fb is not None and depth < 3:
                fb_engine = fb._formula_generator.generate()  # noqa: SLF001
                fb_ids = [int(repr(st)[1:]) for st in fb_engine._builder._steps if isinstance(st, MetricFetcher)]  # noqa: SLF001
                if v is not None and any(values.get(i) is None for i in fb_ids):
                    # the fallback components have no data stream (CHP): failing the primary would leave
                    # no valid source at all, which is outside what a fallback can cover
                    step._next_value = Sample(TS, Power.from_watts(v))  # noqa: SLF001
                    step.apply(stack)
                    continue
                v = _evaluate(fb_engine, values, rec, depth + 1, fail_primaries)
                rec.bucket("fallback-formula-evaluated")
                if v != v:
                    v = None
            step._next_value = Sample(TS, None if v is None else Power.from_watts(v))  # noqa: SLF001
        step.apply(stack)
    if len(stack) != 1:
        raise AssertionError(f"evaluation stack has {len(stack)} entries")
    return stack[0]


def _pool_power_engine(empty_set: bool) -> Any:
    """The FormulaEngine behind BatteryPool.power for a reference store created for all batteries of the graph."""
    import asyncio
    from datetime import timedelta

    from ..vloop import run_virtual

    out: dict[str, Any] = {}

    async def main() -> None:
        from frequenz.channels import Broadcast

        from frequenz.sdk._internal._channels import ChannelRegistry
        from frequenz.sdk.timeseries.battery_pool import BatteryPool
        from frequenz.sdk.timeseries.battery_pool._battery_pool_reference_store import BatteryPoolReferenceStore

        store = BatteryPoolReferenceStore(
            channel_registry=ChannelRegistry(name="vf"), resampler_subscription_sender=Broadcast(name="rs").new_sender(),
            batteries_status_receiver=Broadcast(name="st").new_receiver(limit=1),
            power_manager_requests_sender=Broadcast(name="pm").new_sender(),
            power_manager_bounds_subscription_sender=Broadcast(name="pb").new_sender(),
            power_distribution_results_fetcher=MagicMock(), min_update_interval=timedelta(seconds=0.2),
            batteries_id=set() if empty_set else None)
        try:
            out["engine"] = BatteryPool(pool_ref_store=store, name="vf", priority=0, set_operating_point=False).power
        except Exception as e:  # pylint: disable=broad-except
            out["engine"] = e
        await asyncio.sleep(0)
        await store.stop()

    run_virtual(main)
    return out.get("engine")


def check(case: dict[str, Any], rec: Any) -> None:
    from frequenz.sdk._internal._channels import ChannelRegistry
    from frequenz.sdk.microgrid import connection_manager
    from frequenz.sdk.timeseries.formula_engine._formula_generators import (
        BatteryPowerFormula, CHPPowerFormula, ConsumerPowerFormula, EVChargerPowerFormula,
        FormulaGeneratorConfig, GridPowerFormula, ProducerPowerFormula, PVPowerFormula)
    from types import SimpleNamespace

    try:
        graph = _build(case)
    except Exception as e:  # pylint: disable=broad-except
        rec.count("graphs_rejected_by_validation")
        rec.count("reject:" + type(e).__name__)
        return
    rec.count("graphs_valid")
    # The connection manager keeps ONE graph object and refreshes it (refresh_from) when the microgrid is (re)connected:
    # in 30 % of the cases the graph object first holds another topology (this one without one of its PV inverters /
    # EV chargers), formulas are generated on it, and then it is refreshed to the topology under test.
    devs = sorted(n for n, k in case["nodes"] if k in ("pvinv", "ev"))
    if devs and (len(case["edges"]) * 7 + len(case["nodes"])) % 10 < 3:
        drop = devs[len(case["edges"]) % len(devs)]
        try:
            old_graph = _build({"nodes": [x for x in case["nodes"] if x[0] != drop],
                                "edges": [e for e in case["edges"] if drop not in e]})
        except Exception:  # pylint: disable=broad-except
            old_graph = None
        if old_graph is not None:
            connection_manager._CONNECTION_MANAGER = SimpleNamespace(component_graph=old_graph, api_client=None)  # noqa: SLF001
            for cls in (GridPowerFormula, ConsumerPowerFormula, ProducerPowerFormula, PVPowerFormula, EVChargerPowerFormula,
                        BatteryPowerFormula, CHPPowerFormula):
                try:
                    cls("old", ChannelRegistry(name="old"), MagicMock(), FormulaGeneratorConfig(component_ids=None, allow_fallback=True)).generate()
                except Exception:  # pylint: disable=broad-except
                    pass
            old_graph.refresh_from(*graph._verif_input)  # noqa: SLF001
            graph = old_graph
            rec.bucket("graph-object-refreshed-from-another-topology")
    connection_manager._CONNECTION_MANAGER = SimpleNamespace(component_graph=graph, api_client=None)  # noqa: SLF001
    kinds = {n: k for n, k in case["nodes"]}
    children: dict[int, list[int]] = {n: [] for n in kinds}
    parents: dict[int, list[int]] = {n: [] for n in kinds}
    for a, b in case["edges"]:
        children[a].append(b)
        parents[b].append(a)
    gs = children[1]
    if len(gs) == 1 and kinds[gs[0]] == "meter":
        rec.bucket("single-grid-meter")
    else:
        rec.bucket("no-grid-meter")
    if len(gs) > 1:
        rec.bucket("several-grid-successors")
    if any(kinds[c] != "meter" for c in gs):
        rec.bucket("device-directly-under-grid")
    for n, k in kinds.items():
        if k == "meter":
            ck = {kinds[c] for c in children[n]}
            if any(kinds[p] == "meter" for p in parents[n]) and any(kinds[c] == "meter" for c in children[n]):
                rec.bucket("nested-meters")
            if not ck:
                rec.bucket("load-only-meter")
            elif len(ck) == 1 and ck <= {"batinv", "pvinv", "ev", "chp"}:
                rec.bucket("dedicated-meter")
            elif len(ck) > 1:
                rec.bucket("mixed-meter")
    if any(k == "bat" and len(parents[n]) > 1 for n, k in kinds.items()):
        rec.bucket("battery-behind-several-inverters")
    if any(k == "bat" and len({tuple(parents[i]) for i in parents[n]}) > 1 for n, k in kinds.items()):
        rec.bucket("battery-fed-by-inverters-behind-different-meters")
    present = set(kinds.values())
    for k, name in (("chp", "has-chp"), ("batinv", "has-battery"), ("pvinv", "has-pv"), ("ev", "has-ev")):
        if k in present:
            rec.bucket(name)

    bat_ids = {n for n, k in kinds.items() if k == "bat"}
    ev_ids = {n for n, k in kinds.items() if k == "ev"}
    gens = {"grid": (GridPowerFormula, None), "consumer": (ConsumerPowerFormula, None),
            "producer": (ProducerPowerFormula, None), "battery": (BatteryPowerFormula, bat_ids),
            "ev": (EVChargerPowerFormula, ev_ids), "pv": (PVPowerFormula, None), "chp": (CHPPowerFormula, None)}
    # proper sub-sets (deterministic in the case): some PV inverters, some EV chargers, some battery groups
    import random as _random

    sr = _random.Random(len(case["edges"]) * 131 + len(kinds))
    subsets: dict[str, Any] = {}

    def _proper(items: list[Any]) -> list[Any]:
        k = sr.randint(1, len(items) - 1)
        return sorted(sr.sample(items, k))

    pv_ids = sorted(n for n, k in kinds.items() if k == "pvinv")
    if len(pv_ids) >= 2:
        sub = _proper(pv_ids)
        subsets["pv"] = (PVPowerFormula, sub, lambda own, sub=sub: sum(own[n] for n in sub))
    if len(ev_ids) >= 2:
        sub = _proper(sorted(ev_ids))
        subsets["ev"] = (EVChargerPowerFormula, sub, lambda own, sub=sub: sum(own[n] for n in sub))
    # battery groups: inverters and batteries connected to each other
    grp_of: dict[int, int] = {}
    for n, k in sorted(kinds.items()):
        if k == "batinv" and n not in grp_of:
            todo = [n]
            while todo:
                x = todo.pop()
                if x in grp_of:
                    continue
                grp_of[x] = n
                todo += [c for c in children[x] if kinds[c] == "bat"] + [q for q in parents[x] if kinds[q] == "batinv"]
    bgroups = sorted(set(grp_of.values()))
    if len(bgroups) >= 2:
        chosen = set(_proper(bgroups))
        sub_b = sorted(n for n, g in grp_of.items() if g in chosen and kinds[n] == "bat")
        sub_i = sorted(n for n, g in grp_of.items() if g in chosen and kinds[n] == "batinv")
        subsets["battery"] = (BatteryPowerFormula, sub_b, lambda own, sub_i=sub_i: sum(own[n] for n in sub_i))
    shown = None
    pool_engine: Any = None
    if bat_ids and (len(case["edges"]) + len(kinds)) % 4 == 0:
        # the battery pool's power formula as the pool itself asks for it: through a real BatteryPoolReferenceStore that
        # was created for "all batteries" - spelled None or as an empty set (both documented to mean all of them)
        pool_engine = _pool_power_engine((len(case["edges"]) // 2) % 2 == 0)
        rec.bucket("battery-pool-store-for-all-batteries")
    for assign in case["assigns"]:
        own = {int(k): v for k, v in assign["own"].items()}
        load = {int(k): v for k, v in assign["load"].items()}

        def measured(n: int) -> float:
            k = kinds[n]
            if k == "meter":
                return load[n] + sum(measured(c) for c in children[n])
            if k in ("batinv", "pvinv", "ev", "chp"):
                return own[n]
            return 0.0

        values: dict[int, float | None] = {n: measured(n) for n, k in kinds.items() if k in ("meter", "batinv", "pvinv", "ev")}
        truth = {"battery": sum(v for n, v in own.items() if kinds[n] == "batinv"),
                 "pv": sum(v for n, v in own.items() if kinds[n] == "pvinv"),
                 "ev": sum(v for n, v in own.items() if kinds[n] == "ev"),
                 "chp": sum(v for n, v in own.items() if kinds[n] == "chp"), "consumer": sum(load.values())}
        truth["producer"] = truth["pv"] + truth["chp"]
        truth["grid"] = truth["consumer"] + truth["producer"] + truth["battery"] + truth["ev"]
        gsucc = children[1]
        loaded_single_kind_grid_meter = (
            len(gsucc) == 1 and kinds[gsucc[0]] == "meter" and load.get(gsucc[0], 0) != 0
            and len({kinds[c] for c in children[gsucc[0]]}) == 1
            and {kinds[c] for c in children[gsucc[0]]} <= {"batinv", "pvinv", "ev"})
        if loaded_single_kind_grid_meter:
            rec.bucket("grid-meter-over-one-device-kind-with-building-load")
        if pool_engine is not None and not isinstance(pool_engine, Exception):
            wp = {"formula": "battery pool power (store for all batteries)", "nodes": case["nodes"], "edges": case["edges"],
                  "own": assign["own"], "load": assign["load"], "expected": truth["battery"], "engine": str(pool_engine)}
            try:
                val = _evaluate(pool_engine, values, rec)
                rec.count("formulas_evaluated")
                if not (val == val) or not math.isclose(val, truth["battery"], abs_tol=1e-6):
                    rec.violation("formula-differs-from-true-total", {**wp, "got": None if val != val else val})
            except Exception as e:  # pylint: disable=broad-except
                from ..common import HarnessError, raised_in_repo

                if not raised_in_repo(e):
                    raise HarnessError(f"{type(e).__name__}: {e}") from e
                rec.violation("formula-generation-or-evaluation-raised", {**wp, "error": f"{type(e).__name__}: {e}"[:300]})
        for fb in (True, False, "primaries-failed"):
            if False and fb == "primaries-failed" and loaded_single_kind_grid_meter:  # (no longer excused, see DESIGN 8.2)
                # with that meter failed its unmetered load is not observable from any other component: there is
                # no true total the fallback could be held to (the meters-work passes above are judged)
                rec.count("primaries-failed-pass-skipped(load only observable at the failed grid meter)")
                continue
            got: dict[str, float] = {}
            for name, (cls, ids) in gens.items():
                reg = ChannelRegistry(name="x")
                w = {"formula": name, "allow_fallback": fb, "nodes": case["nodes"], "edges": case["edges"],
                     "own": assign["own"], "load": assign["load"], "expected": truth[name]}
                try:
                    eng = cls("ns", reg, MagicMock(), FormulaGeneratorConfig(component_ids=ids, allow_fallback=bool(fb))).generate()
                    w["engine"] = str(eng)
                    # third pass: every primary that has a fallback reads as missing -> its fallback formula is used
                    val = _evaluate(eng, values, rec, fail_primaries=(fb == "primaries-failed"))
                except Exception as e:  # pylint: disable=broad-except
                    from ..common import HarnessError, raised_in_repo

                    if not raised_in_repo(e):
                        # the harness reaches into private names of the formula steps; if they are gone (refactoring)
                        # this check cannot observe anything: inconclusive, not a violation
                        raise HarnessError(f"{type(e).__name__}: {e}") from e
                    rec.violation("formula-generation-or-evaluation-raised", {**w, "error": f"{type(e).__name__}: {e}"[:300]})
                    continue
                rec.count("formulas_evaluated")
                got[name] = val
                if not (val == val) or not math.isclose(val, truth[name], abs_tol=1e-6):
                    rec.violation("formula-differs-from-true-total", {**w, "got": None if val != val else val,
                                                                      "error": None if val != val else val - truth[name]})
            # the same generators asked for a proper sub-set of the devices (a pool over some of the PV inverters,
            # EV chargers or battery groups): the true total is the one of the requested devices
            for name, (cls, ids, expected) in subsets.items():
                exp = expected(own)
                w = {"formula": name + "(sub-set)", "component_ids": sorted(ids), "allow_fallback": fb, "nodes": case["nodes"],
                     "edges": case["edges"], "own": assign["own"], "load": assign["load"], "expected": exp}
                try:
                    eng = cls("ns", ChannelRegistry(name="x"), MagicMock(),
                              FormulaGeneratorConfig(component_ids=set(ids), allow_fallback=bool(fb))).generate()
                    w["engine"] = str(eng)
                    val = _evaluate(eng, values, rec, fail_primaries=(fb == "primaries-failed"))
                except Exception as e:  # pylint: disable=broad-except
                    from ..common import HarnessError, raised_in_repo

                    if not raised_in_repo(e):
                        raise HarnessError(f"{type(e).__name__}: {e}") from e
                    rec.violation("formula-generation-or-evaluation-raised", {**w, "error": f"{type(e).__name__}: {e}"[:300]})
                    continue
                rec.count("subset_formulas_evaluated")
                rec.bucket("formula-for-a-sub-set-of-the-devices")
                if not (val == val) or not math.isclose(val, exp, abs_tol=1e-6):
                    rec.violation("formula-differs-from-true-total", {**w, "got": None if val != val else val,
                                                                      "error": None if val != val else val - exp})
            if all(k in got and got[k] == got[k] for k in ("grid", "consumer", "producer", "battery", "ev")):
                rec.count("balance_checks")
                s = got["consumer"] + got["producer"] + got["battery"] + got["ev"]
                if not math.isclose(got["grid"], s, abs_tol=1e-6):
                    # attributed to the individual formula violations above when one of them is already wrong
                    if all(math.isclose(got[k], truth[k], abs_tol=1e-6) for k in got):
                        rec.violation("grid-differs-from-sum-of-parts", {"got": got, "nodes": case["nodes"],
                                                                         "edges": case["edges"]})
            shown = shown or {"got": got, "truth": truth}
    rec.nontrivial(len(present & {"batinv", "pvinv", "ev", "chp"}) >= 2 and "meter" in present)
    rec.observed(shown)


# ----------------------------------------------------------------- known-finding predicates


def _topo(case: dict[str, Any]) -> tuple[dict[int, str], dict[int, list[int]], dict[int, list[int]]]:
    kinds = {n: k for n, k in case["nodes"]}
    ch: dict[int, list[int]] = {n: [] for n in kinds}
    pa: dict[int, list[int]] = {n: [] for n in kinds}
    for a, b in case["edges"]:
        ch[a].append(b)
        pa[b].append(a)
    return kinds, ch, pa


def _measured(case_detail: dict[str, Any], kinds: dict[int, str], ch: dict[int, list[int]]) -> Any:
    own = {int(k): v for k, v in case_detail["own"].items()}
    load = {int(k): v for k, v in case_detail["load"].items()}

    def measured(n: int) -> float:
        k = kinds[n]
        if k == "meter":
            return load[n] + sum(measured(c) for c in ch[n])
        if k in ("batinv", "pvinv", "ev", "chp"):
            return own[n]
        return 0.0

    return measured, own, load


def _subtree(n: int, ch: dict[int, list[int]]) -> set[int]:
    out = {n}
    for c in ch[n]:
        out |= _subtree(c, ch)
    return out


def _f_consumer_no_grid_meter(case: dict[str, Any], v: dict[str, Any]) -> bool:
    """Consumer formula, 'without grid meter' path: the first meters found below the grid that are not pure
    battery/PV/EV/CHP chains are summed as if everything below them were consumption, although they also
    measure the non-consumer devices connected below them. The error must equal exactly the non-consumer power
    below the listed meters (minus load that is not below any listed meter)."""
    import re

    d = v["detail"]
    if v["kind"] != "formula-differs-from-true-total" or d["formula"] != "consumer" or d.get("got") is None:
        return False
    if not re.fullmatch(r"#\d+( \+ #\d+)*", d.get("engine", "")):
        return False  # the with-grid-meter path subtracts components: not this mechanism
    kinds, ch, _pa = _topo(case)
    listed = [int(x) for x in re.findall(r"#(\d+)", d["engine"])]
    if any(kinds.get(n) != "meter" for n in listed):
        return False
    # the path is only taken when the grid's successors are not all plain (non-device-chain) meters
    gs = ch[1]
    if len(gs) == 1 and kinds[gs[0]] == "meter" and listed == gs:
        return False
    measured, own, load = _measured(d, kinds, ch)
    covered: set[int] = set()
    for m in listed:
        covered |= _subtree(m, ch)
    devices_below = sum(own[n] for n in covered if n in own)
    load_outside = sum(val for n, val in load.items() if n not in covered)
    if devices_below == 0 and load_outside == 0:
        return False
    predicted_error = devices_below - load_outside
    return abs(d["error"] - predicted_error) <= 1e-6 and abs(d["got"] - sum(measured(m) for m in listed)) <= 1e-6


def _f_chp_under_grid_meter(case: dict[str, Any], v: dict[str, Any]) -> bool:
    """Producer / consumer formula when the CHPs' meter is the grid meter itself: the formula references the CHP components
    directly, which have no data stream (read as 0), so exactly the CHPs' power is missing from the total."""
    import re

    d = v["detail"]
    if v["kind"] != "formula-differs-from-true-total" or d["formula"] not in ("producer", "consumer") \
            or d.get("got") is None:
        return False
    kinds, ch, pa = _topo(case)
    ids = [int(x) for x in re.findall(r"#(\d+)", d.get("engine", ""))]
    chps = [n for n in ids if kinds.get(n) == "chp"]
    if not chps:
        return False
    # every referenced CHP hangs directly below a meter that is a direct successor of the grid
    if not all(len(pa[n]) == 1 and kinds[pa[n][0]] == "meter" and pa[pa[n][0]] == [1] for n in chps):
        return False
    own = {int(k): val for k, val in d["own"].items()}
    missing = sum(own[n] for n in chps)
    # producer adds the CHPs (their power is missing), consumer subtracts them (their power is not removed)
    return abs(d["error"] - (missing if d["formula"] == "consumer" else -missing)) <= 1e-6


FINDINGS: dict[str, Any] = {
    "consumer-formula-without-grid-meter-counts-devices-below-mixed-meters": _f_consumer_no_grid_meter,
    "formula-reads-chp-without-data-when-its-meter-is-the-grid-meter": _f_chp_under_grid_meter,
}

LEVEL_NOTE += " Rounds 13-14: graph object refreshed from another topology; the pool's own power formula through a real reference store."
