"""C07 — resampled timeline is aligned, gap-free and shared by all series.

Monitor: samples handed to recording sinks passed to the real Resampler.add_timeseries in virtual
time, under generated creation phases, alignment points, sink-latency scripts and series added
before / between / during ticks. Oracle: exact grid membership, consecutive ticks, shared
timestamps, start window, bounded catch-up.
"""

from __future__ import annotations

from datetime import timedelta
from typing import Any

from .. import resamp
from ..vloop import EPOCH

ID = "C07"
LEVEL = "exploration"
TECHNIQUE = ("runtime monitor: boundary recorder on the sinks of the real Resampler in virtual time with injected "
             "sink latency (delays only at existing suspension points); oracle = exact alignment, consecutive ticks, "
             "shared timestamps, start window, bounded catch-up after lateness stops")
LEVEL_TEXT = ("held on N generated runs: period in {0.1,0.2,1,2.5,60}s, align_to epoch/past non-multiple/future/None, "
              "creation instant swept over grid phases incl. exactly aligned and 1 us either side, sink latency per "
              "tick in {0.3,1.0,1.0+eps,3.7} periods, 1-5 series added before start, between ticks and during a slow "
              "tick (resample() restarted by the harness when it ends, as the resampling actor does). Time is "
              "virtual and exact; catch-up is decided as bounded progress.")
LEVEL_NOTE = ("virtual clock (async_solipsism + time_machine); timer lateness is produced by slow sinks (the only source "
              "of lateness inside a cooperative loop); tick numbering uses the hooked _window_end only to place series "
              "additions, verdicts use sink-observed timestamps"
              ' Build phase: periods up to 1.5 days, alignment points centuries back, a clock that moves on between readings, series ending / beginning with bursts, emission never before the timestamp; actor and MovingWindow tiers.')
RULE = ("seeded configurations x latency scripts x addition scripts; distinct = canonical case JSON; non-trivial = >=8 "
        "ticks observed and (a latency >= 1 period or a series added while running or a non-aligned creation phase)")
REQUIRED_BUCKETS = ["first-samples-as-a-burst-just-before-a-tick", "alignment-point-centuries-back", "period-of-18-hours-or-more", "clock-moves-on-between-readings-while-the-resampler-is-constructed",
                    "align:none", "align:epoch", "align:past-nonmultiple", "align:future", "creation-exactly-aligned",
                    "creation-1us-off", "align_to-in-non-utc-timezone", "align_to-in-daylight-saving-zone", "resampling-function-yields-NaN-for-some-ticks", "latency>=1period", "latency-several-periods", "series-added-between-ticks",
                    "series-added-during-slow-tick", "catch-up-observed", "multi-series", "actor-tier",
                    "actor-tier:timer-late>=1period", "actor-tier:source-of-one-metric-ended", "actor-tier:request-repeated-later", "series-ended:SourceStoppedError", "slow-sink-takes-the-sample-late",
                    "series-ended:remove_timeseries", "moving-window-tier", "moving-window-tier:align:none",
                    "moving-window-tier:align:offset", "moving-window-tier:stopped-and-started-again",
                    "moving-window-tier:restart-then-late-timer"]
REQUIRED_COUNTERS = ["ticks_observed", "runs"]
ASSUMPTIONS = ["virtual time", "a series whose source closes or that the user removes is only required to have received a "
               "gap-free stretch of the shared timeline; the other series are held to the full property"]


def budget(tier: str) -> dict[str, Any]:
    if tier == "quick":
        return {"shards": 8, "cases": 1200}
    return {"shards": 32, "cases": 2500, "hashseeds": [0, 1, 2, 3]}


def gen(rng: Any, tier: str, i: int) -> Any:
    r0 = rng.random()
    if r0 < 0.22:
        return gen_actor(rng)
    if r0 < 0.34:
        return gen_mw(rng)
    period = rng.choice([0.1, 0.2, 1.0, 1.0, 2.5, 60.0, 7.0, 3600.0, 64800.0, 86400.0, 129600.0])  # (up to days)
    ak = rng.choice(["none", "epoch", "past", "future", "past"])
    align = {"none": None, "epoch": 0.0,
             # (also alignment points thousands of years back, such as datetime.min: 6e10 s need 36 bits before the point)
             "past": -rng.choice([0.3, 7.123456, 1234.5, 63113904000.25, 31556952000.123456, 63838540800.0]) * 1.0,
             "future": rng.choice([1000.0, 86400.0 + 0.25, 3.3])}[ak]
    # creation instant: phases of the grid incl. exactly aligned and 1 us either side
    base = (align or 0.0)
    k = rng.randint(1, 50)
    phase = rng.choice([0.0, 0.0, 1e-6, -1e-6, 0.5 * period, 0.3 * period, 0.999999 * period, round(rng.uniform(0, period), 6)])
    start = max(0.0, base % period + k * period + phase) if ak != "future" else max(0.0, k * period + phase + (base % period))
    start = round(start, 6)
    ticks = rng.randint(10, 24)
    ns = rng.choice([1, 1, 2, 3, 5])
    series = []
    for s in range(ns):
        add_at = 0.0 if s == 0 or rng.random() < 0.4 else round(rng.uniform(0.2, ticks - 4) * period, 6)
        ev = []
        for _ in range(ticks * 2):
            ev.append([round(period * rng.choice([0.3, 0.5, 1.0, 1.7]), 6), "now", "ok"])
        series.append({"add_at": add_at, "events": ev})
    if ak == "none" and rng.random() < 0.25:
        # a series whose first samples arrive as a burst (five samples with one timestamp) two microseconds before a
        # tick: elapsed time / samples rounds to a period of zero
        kk = rng.randint(3, ticks - 4)
        ev = [[0.0, "now", "ok"]] + [[0.0, "same", "ok"] for _ in range(4)]
        for _ in range(ticks * 2):
            ev.append([round(period * rng.choice([0.3, 0.5, 1.0, 1.7]), 6), "now", "ok"])
        series.append({"add_at": round(kk * period - 2e-6, 6), "events": ev, "burst_before_tick": True})
        ns += 1
    series.sort(key=lambda s: s["add_at"])
    # one series may end while the others go on: its source closes (resample() raises, the harness removes it like
    # the resampling actor does) or the user removes it; the *other* series must not notice
    if ns >= 2 and rng.random() < 0.3:
        victim = rng.randrange(ns)
        frac = rng.choice([0.5, 0.0, 1e-6 / period, 0.999])
        series[victim]["end"] = {"kind": rng.choice(["close", "remove"]),
                                 "at": round(max(series[victim]["add_at"], 0.0) + (rng.randint(2, ticks - 5) + frac) * period, 6)}
    lat = []
    maxlat = 0.0
    if rng.random() < 0.75:
        for _ in range(rng.randint(1, 4)):
            l = rng.choice([0.3, 1.0, 1.000001, 1.5, 3.7])
            maxlat = max(maxlat, l)
            lat.append([rng.randint(0, ticks - 5), rng.randrange(ns), l])
    # the tick in which a series fails is a slow one for the others: their sinks are still being served when the
    # failure of the victim is noticed
    victim_i = next((i for i, x in enumerate(series) if x.get("end")), None)
    if victim_i is not None and rng.random() < 0.6:
        k0 = int(series[victim_i]["end"]["at"] / period)
        for i in range(ns):
            if i != victim_i:
                for k in range(max(0, k0 - 2), k0 + 3):
                    kk = k - int(max(series[i]["add_at"], 0.0) / period)
                    if kk >= 0:
                        lat.append([kk, i, rng.choice([0.3, 0.3, 0.6])])
        maxlat = max(maxlat, 0.6)
    # force additions *during* a slow tick sometimes
    if lat and ns >= 2 and rng.random() < 0.5:
        t_no, s_idx, l = max(lat, key=lambda x: x[2])
        if l >= 1.0:
            series[-1]["add_at"] = -1.0  # placeholder: resolved by the driver relative to that tick
            series[-1]["add_in_tick"] = [t_no, 0.5 * min(l, 1.0)]
    tz_min = rng.choice([0, 0, 330, -210, 345, 120, -720]) if ak != "none" else 0
    zone = None
    if ak in ("epoch", "past") and rng.random() < 0.25:
        # align_to written in a zone with daylight saving, the run straddling a clock change (2024-03-31 or 2024-10-27,
        # 01:00 UTC) or the end of the wall-clock hour that the change skips / repeats
        zone = "Europe/Berlin"
        to_change = rng.choice([90, 300]) * 86400 + 3600 + rng.choice([0, 3600])  # seconds from the harness epoch
        start = round(start % period + (int(to_change / period) - rng.randint(3, 8)) * period, 6)
    return {"sink_takes_late": rng.random() < 0.5, "creeping_clock": rng.random() < 0.3, "nan_every": rng.choice([0, 0, 0, 3, 5]), "align_zone": zone, "align_tz_min": tz_min, "period": period, "align": align, "align_kind": ak, "start_offset": start, "max_age": 3.0, "init_len": 4,
            "max_len": 16, "ticks": ticks, "series": series, "lat": lat,
            # (slow ticks can follow one another: the lag to be caught up is at most the sum of the latencies)
            "drain_periods": max(maxlat, sum(x[2] for x in lat)) + 3, "phase": phase}


def _resolve_add_in_tick(case: dict[str, Any]) -> dict[str, Any]:
    """Turn 'add during tick t' into an absolute add_at (seconds after creation), using only the
    documented first-window rule (first tick no later than 2 periods after creation)."""
    import copy

    c = copy.deepcopy(case)
    p = c["period"]
    # first window end relative to creation, from the documented alignment rule
    if c["align"] is None:
        first = p
    else:
        elapsed = (c["start_offset"] - c["align"]) % p
        elapsed = round(elapsed, 6) % p
        first = p if elapsed == 0 else 2 * p - elapsed
    for s in c["series"]:
        if "add_in_tick" in s:
            t_no, frac = s.pop("add_in_tick")
            s["add_at"] = round(first + t_no * p + frac * p, 6)
            s["during_tick"] = True
    c["series"].sort(key=lambda s: s["add_at"])
    return c


# ------------------------------------------------------------------ actor tier
# The real ComponentMetricsResamplingActor (microgrid/_resampling.py) over a ChannelRegistry: subscription
# requests arrive before start / between ticks / in bursts; the loop is made "busy" (virtual clock jumps while a
# harness task holds the loop) so that the timer fires late by up to several periods.


def gen_actor(rng: Any) -> dict[str, Any]:
    period = rng.choice([0.2, 1.0, 1.0, 2.5])
    ticks = rng.randint(12, 30)
    nreq = rng.randint(1, 5)
    reqs = []
    for j in range(nreq):
        at = 0.0 if j == 0 or rng.random() < 0.3 else round(rng.uniform(0.1, ticks - 5) * period, 6)
        reqs.append([at, 10 + j, rng.random() < 0.25])  # (time, component id, send a duplicate right after)
    reqs.sort()
    busy = [[round(rng.uniform(1, ticks - 4) * period, 6), rng.choice([0.3, 1.0, 1.000001, 2.2, 3.7]) * period]
            for _ in range(rng.randint(0, 3))]
    busy.sort()
    ends: list[list[Any]] = []
    if nreq >= 2 and rng.random() < 0.4:
        # the data source of one metric ends while the others go on (the actor removes that series); later a request
        # for a metric that is still being resampled is repeated
        v = rng.randrange(nreq)
        at_end = round(reqs[v][0] + rng.uniform(3, 6) * period, 6)
        # (another series is live across the end: with no series at all there is no timeline to observe)
        others = [r for r in reqs if r[1] != reqs[v][1] and r[0] < at_end - 2 * period]
        if at_end < (ticks - 6) * period and others:
            ends.append([at_end, reqs[v][1]])
            o = rng.choice(others)
            reqs.append([round(at_end + rng.uniform(2, 4) * period, 6), o[1], False])
    elif rng.random() < 0.3:
        o = rng.choice(reqs)
        reqs.append([round(o[0] + rng.uniform(2, 6) * period, 6), o[1], False])  # a late repetition of a request
    reqs.sort()
    return {"tier": "actor", "period": period, "ticks": ticks, "requests": reqs, "busy": busy, "source_ends": ends,
            "start_offset": round(rng.choice([0.0, 0.3, 0.999999]) * period + rng.randint(0, 20) * period, 6)}


async def _drive_actor_tier(case: dict[str, Any], out: dict[str, Any]) -> None:
    import asyncio
    from datetime import datetime, timezone

    from frequenz.channels import Broadcast
    from frequenz.client.microgrid import ComponentMetricId
    from frequenz.quantities import Quantity

    import frequenz.sdk.microgrid  # noqa: F401
    from frequenz.sdk._internal._channels import ChannelRegistry
    from frequenz.sdk.microgrid._data_sourcing import ComponentMetricRequest
    from frequenz.sdk.microgrid._resampling import ComponentMetricsResamplingActor
    from frequenz.sdk.timeseries import Sample
    from frequenz.sdk.timeseries._resampling import ResamplerConfig

    loop = asyncio.get_event_loop()
    p = case["period"]
    reg = ChannelRegistry(name="reg")
    ds_req = Broadcast(name="ds")
    ds_rx = ds_req.new_receiver(limit=1000)
    rs_req = Broadcast(name="rs")
    out["created"] = datetime.now(timezone.utc)
    actor = ComponentMetricsResamplingActor(channel_registry=reg, data_sourcing_request_sender=ds_req.new_sender(),
                                            resampling_request_receiver=rs_req.new_receiver(limit=1000),
                                            config=ResamplerConfig(resampling_period=timedelta(seconds=p)))
    actor.start()
    rtx = rs_req.new_sender()
    t0 = loop.time()
    sinks: dict[int, Any] = {}
    feeders: list[Any] = []

    async def feed(cid: int, name: str) -> None:
        tx = reg.get_or_create(Sample[Quantity], name).new_sender()
        k = 0
        while True:
            await tx.send(Sample(datetime.now(timezone.utc), Quantity(float(k))))
            k += 1
            await asyncio.sleep(p * 0.37)

    feeder_of: dict[int, Any] = {}

    async def data_sourcing() -> None:
        async for req in ds_rx:  # what the DataSourcingActor would do: start streaming on the ':Source' channel
            feeders.append(asyncio.create_task(feed(req.component_id, req.get_channel_name())))
            feeder_of[req.component_id] = (feeders[-1], req.get_channel_name())

    async def end_sources() -> None:
        for at, cid in case.get("source_ends", []):
            dt = t0 + at - loop.time()
            if dt > 0:
                await asyncio.sleep(dt)
            if cid in feeder_of:
                task, name = feeder_of[cid]
                task.cancel()
                await reg.get_or_create(Sample[Quantity], name).close()
                out.setdefault("ended", {})[cid] = datetime.now(timezone.utc)

    end_task = asyncio.create_task(end_sources())

    ds_task = asyncio.create_task(data_sourcing())

    async def busy_loop() -> None:
        clock = loop._selector.clock  # noqa: SLF001
        for at, dur in case["busy"]:
            dt = t0 + at - loop.time()
            if dt > 0:
                await asyncio.sleep(dt)
            clock.advance(dur)  # the loop was blocked for `dur` seconds: every timer due meanwhile fires late

    busy_task = asyncio.create_task(busy_loop())
    for at, cid, dup in case["requests"]:
        dt = t0 + at - loop.time()
        if dt > 0:
            await asyncio.sleep(dt)
        req = ComponentMetricRequest("ns", cid, ComponentMetricId.ACTIVE_POWER, None)
        if cid not in sinks:
            sinks[cid] = {"rx": reg.get_or_create(Sample[Quantity], req.get_channel_name()).new_receiver(limit=5000),
                          "requested_at": datetime.now(timezone.utc)}
        await rtx.send(req)
        if dup:
            await rtx.send(req)
    dt = t0 + case["ticks"] * p - loop.time()
    if dt > 0:
        await asyncio.sleep(dt)
    # + an off-grid offset: frequenz-channels' Timer.ready() swallows a cancellation that lands in the one loop
    # iteration in which it awaits its cancelled helper task (at every tick instant), after which
    # ComponentMetricsResamplingActor.stop() never returns. That is a defect of the third-party Timer (not of
    # this repository), reproducible by stopping exactly on a tick instant; the harness therefore stops off-grid.
    await asyncio.sleep(5 * p + 0.123 * p)
    out["drained_at"] = datetime.now(timezone.utc)
    out["sinks"] = {}
    for cid, s in sinks.items():
        lst = []
        while s["rx"]._q:  # noqa: SLF001
            x = s["rx"].consume()
            lst.append(x.timestamp)
        out["sinks"][cid] = {"ts": lst, "requested_at": s["requested_at"]}
    for f in feeders:
        f.cancel()
    ds_task.cancel()
    busy_task.cancel()
    end_task.cancel()
    await actor.stop()


def check_actor_tier(case: dict[str, Any], rec: Any) -> None:
    from ..vloop import run_virtual

    out: dict[str, Any] = {}
    run_virtual(lambda: _drive_actor_tier(case, out), start_offset=case["start_offset"])
    rec.bucket("actor-tier")
    rec.count("runs")
    seen_req: dict[int, float] = {}
    for at, cid, _dup in case["requests"]:
        if cid in seen_req and at > seen_req[cid]:
            rec.bucket("actor-tier:request-repeated-later")
        seen_req.setdefault(cid, at)
    p = case["period"]
    per = timedelta(seconds=p)
    if any(d >= p for _, d in case["busy"]):
        rec.bucket("actor-tier:timer-late>=1period")
    glob = sorted({t for s in out["sinks"].values() for t in s["ts"]})
    w0 = {"tier": "actor", "period": p, "busy": case["busy"], "requests": case["requests"]}
    if not glob:
        rec.violation("no-sample-emitted", w0)
        return
    rec.count("ticks_observed", len(glob))
    base = EPOCH  # ResamplerConfig.align_to defaults to the UNIX epoch; EPOCH is a multiple of every period used
    ks = []
    for ts in glob:
        q = (ts - base) / per
        if abs(q - round(q)) > 1e-9:
            rec.violation("timestamp-not-on-the-alignment-grid", {**w0, "timestamp": str(ts)})
            return
        ks.append(round(q))
    if ks != list(range(ks[0], ks[0] + len(ks))):
        rec.violation("tick-skipped-or-duplicated", {**w0, "ks": ks[:60]})
    if not (out["created"] <= glob[0] <= out["created"] + 2 * per):
        rec.violation("first-tick-outside-[creation,creation+2periods]", {**w0, "first": str(glob[0])})
    for cid, s in out["sinks"].items():
        tss = s["ts"]
        if tss != sorted(set(tss)):
            rec.violation("series-timestamps-repeated-or-reordered", {**w0, "series": cid})
            continue
        ended = out.get("ended", {}).get(cid)
        # (ticks that are processed late - the loop was blocked - after the source has gone are not emitted any more)
        slack = timedelta(seconds=sum(d for _, d in case["busy"]))  # (episodes can follow one another)
        if not tss:
            if ended is None or ended > s["requested_at"] + 3 * per + slack:
                rec.violation("series-never-received-a-sample", {**w0, "series": cid, "source_ended": str(ended)})
            continue
        expect = [g for g in glob if g >= tss[0]]
        if ended is not None:
            # the source of this series ended: a gap-free stretch of the shared timeline that reaches its end
            rec.bucket("actor-tier:source-of-one-metric-ended")
            if tss != expect[:len(tss)] or tss[-1] < ended - 2 * per - slack:
                rec.violation("series-timestamps-not-shared-or-gapped", {**w0, "series": cid, "source_ended": str(ended),
                                                                         "got": [str(t) for t in tss[:30]]})
        elif tss != expect and tss != expect[:-1]:
            rec.violation("series-timestamps-not-shared-or-gapped", {**w0, "series": cid, "got": [str(t) for t in tss[:30]]})
        # a subscription is served from the current or the next tick (+ the busy time the loop was blocked)
        maxbusy = max([d for _, d in case["busy"]] or [0.0])
        if tss[0] > s["requested_at"] + 2 * per + timedelta(seconds=maxbusy):
            rec.violation("subscription-served-too-late", {**w0, "series": cid, "first": str(tss[0]),
                                                           "requested_at": str(s["requested_at"])})
    if glob[-1] < out["drained_at"] - per - timedelta(microseconds=1):
        rec.violation("not-caught-up-after-lateness-stopped", {**w0, "last_tick": str(glob[-1]), "now": str(out["drained_at"])})
    rec.nontrivial(len(glob) >= 8 and (len(case["requests"]) > 1 or bool(case["busy"])))
    rec.observed({"tier": "actor", "ticks": len(glob), "series": {str(c): len(s["ts"]) for c, s in out["sinks"].items()}})


# ------------------------------------------------------------------ MovingWindow tier
# A MovingWindow created with a resampler_config owns a Resampler (timeseries/_moving_window.py). The samples it
# hands to its ring buffer (recorded by wrapping the buffer's update on that instance) must be on the grid of the
# *resampler configuration's* align_to, independent of the window's own align_to.


def gen_mw(rng: Any) -> dict[str, Any]:
    period = rng.choice([0.5, 1.0, 2.0])
    x_kind = rng.choice(["none", "epoch", "offset", "offset"])
    return {"tier": "mw", "period": period, "x_kind": x_kind,
            "x_off": {"none": None, "epoch": 0.0, "offset": round(rng.choice([0.25, 0.3, 0.123456]) * period, 6)}[x_kind],
            "y_off": round(rng.choice([0.0, 0.5, 0.4]) * period, 6),
            "start_offset": round(rng.choice([0.0, 0.3, 0.999999, 0.5]) * period + rng.randint(1, 30) * period, 6),
            "ticks": rng.randint(10, 20),
            # the window is stopped and started again mid-run (off the tick grid), and later the loop is held for a
            # while (timer fires late): its resampling must carry on as one gap-free timeline
            "restart_at": rng.choice([None, None, round(rng.uniform(3, 6), 3)]),
            "busy": rng.choice([None, [round(rng.uniform(7, 9), 3), rng.choice([0.4, 1.0, 2.3])]])}


async def _drive_mw(case: dict[str, Any], out: dict[str, Any]) -> None:
    import asyncio
    from datetime import datetime, timezone

    from frequenz.channels import Broadcast
    from frequenz.quantities import Quantity

    from frequenz.sdk.timeseries import MovingWindow, Sample
    from frequenz.sdk.timeseries._resampling import ResamplerConfig

    p = case["period"]
    per = timedelta(seconds=p)
    ch = Broadcast(name="in")
    kw: dict[str, Any] = {"align_to": None if case["x_off"] is None else EPOCH + timedelta(seconds=case["x_off"])}
    out["created"] = datetime.now(timezone.utc)
    mw = MovingWindow(size=per * 8, resampled_data_recv=ch.new_receiver(limit=1000), input_sampling_period=per / 3,
                      resampler_config=ResamplerConfig(resampling_period=per, **kw),
                      align_to=EPOCH + timedelta(seconds=case["y_off"]))
    # observation point: every sink the window hands to its resampler's add_timeseries (one per start of the window)
    per_sink: list[list[Any]] = []
    rs = mw._resampler  # noqa: SLF001
    orig_add = rs.add_timeseries

    def add_timeseries(name: str, source: Any, sink: Any) -> bool:
        mine: list[Any] = []
        per_sink.append(mine)

        async def recording_sink(sample: Any) -> None:
            mine.append(sample.timestamp)
            await sink(sample)

        return orig_add(name, source, recording_sink)

    rs.add_timeseries = add_timeseries  # type: ignore[method-assign]
    mw.start()
    tx = ch.new_sender()
    loop = asyncio.get_event_loop()
    t0 = loop.time()
    k = 0
    restarted = busy_done = False
    while loop.time() - t0 < case["ticks"] * p:
        await tx.send(Sample(datetime.now(timezone.utc), Quantity(float(k))))
        k += 1
        await asyncio.sleep(p * 0.37)
        el = (loop.time() - t0) / p
        if case.get("restart_at") and not restarted and el >= case["restart_at"]:
            restarted = True
            await asyncio.sleep(0.0123 * p)  # (off the tick grid: see the Timer remark in the actor tier)
            await mw.stop()
            out["restarted_at"] = datetime.now(timezone.utc)
            mw.start()
        if case.get("busy") and not busy_done and el >= case["busy"][0]:
            busy_done = True
            loop._selector.clock.advance(case["busy"][1] * p)  # noqa: SLF001  (the loop was blocked that long)
    await asyncio.sleep(3.123 * p)
    out["per_sink"] = per_sink
    out["ts"] = sorted({t for lst in per_sink for t in lst})
    await mw.stop()


def check_mw(case: dict[str, Any], rec: Any) -> None:
    from ..vloop import run_virtual

    out: dict[str, Any] = {}
    run_virtual(lambda: _drive_mw(case, out), start_offset=case["start_offset"])
    rec.bucket("moving-window-tier")
    rec.bucket("moving-window-tier:align:" + case["x_kind"])
    if case.get("restart_at"):
        rec.bucket("moving-window-tier:stopped-and-started-again")
        if case.get("busy") and case["busy"][1] >= 1.0:
            rec.bucket("moving-window-tier:restart-then-late-timer")
    rec.count("runs")
    p = case["period"]
    per = timedelta(seconds=p)
    ts = out["ts"]
    for n_sink, lst in enumerate(out.get("per_sink", [])):
        if lst != sorted(set(lst)):
            rec.violation("series-timestamps-repeated-or-reordered",
                          {"tier": "moving-window", "sink_of_start_number": n_sink + 1, "period": p,
                           "timestamps": [str(t) for t in lst[:30]], "restart_at": case.get("restart_at"), "busy": case.get("busy")})
            return
        if lst and lst != [t for t in ts if lst[0] <= t <= lst[-1]]:
            rec.violation("series-timestamps-not-shared-or-gapped",
                          {"tier": "moving-window", "sink_of_start_number": n_sink + 1, "period": p,
                           "timestamps": [str(t) for t in lst[:30]]})
            return
    w0 = {"tier": "moving-window", "period": p, "resampler_align_to_offset": case["x_off"],
          "window_align_to_offset": case["y_off"], "created": str(out["created"]), "timestamps": [str(t) for t in ts[:12]]}
    if len(ts) < 5:
        rec.violation("moving-window-resampler-emitted-too-few-samples", w0)
        return
    rec.count("ticks_observed", len(ts))
    base = out["created"] if case["x_off"] is None else EPOCH + timedelta(seconds=case["x_off"])
    ks = []
    for t in ts:
        q = (t - base) / per
        if abs(q - round(q)) > 1e-9:
            rec.violation("timestamp-not-on-the-alignment-grid", {**w0, "timestamp": str(t)})
            return
        ks.append(round(q))
    if ks != list(range(ks[0], ks[0] + len(ks))):
        rec.violation("tick-skipped-or-duplicated", {**w0, "ks": ks[:40]})
    if not (out["created"] <= ts[0] <= out["created"] + 2 * per):
        rec.violation("first-tick-outside-[creation,creation+2periods]", {**w0, "first": str(ts[0])})
    rec.nontrivial(True)
    rec.observed({"tier": "moving-window", "ticks": len(ts), "first": str(ts[0])})


def check(case: dict[str, Any], rec: Any) -> None:
    if case.get("tier") == "actor":
        check_actor_tier(case, rec)
        return
    if case.get("tier") == "mw":
        check_mw(case, rec)
        return
    c = _resolve_add_in_tick(case)
    p = c["period"]
    per = timedelta(seconds=p)
    rec.bucket("align:" + {"none": "none", "epoch": "epoch", "past": "past-nonmultiple", "future": "future"}[c["align_kind"]])
    if c.get("nan_every"):
        rec.bucket("resampling-function-yields-NaN-for-some-ticks")
    if c.get("align_zone"):
        rec.bucket("align_to-in-daylight-saving-zone")
    elif c.get("align_tz_min"):
        rec.bucket("align_to-in-non-utc-timezone")
    if c["phase"] == 0.0:
        rec.bucket("creation-exactly-aligned")
    if abs(c["phase"]) == 1e-6:
        rec.bucket("creation-1us-off")
    lats = [l for _, _, l in c["lat"]]
    if c.get("sink_takes_late") and lats:
        rec.bucket("slow-sink-takes-the-sample-late")
    if any(l >= 1.0 for l in lats):
        rec.bucket("latency>=1period")
    if any(l > 2 for l in lats):
        rec.bucket("latency-several-periods")
    if len(c["series"]) > 1:
        rec.bucket("multi-series")
    r = resamp.run_case(c)
    rec.count("runs")
    if any(x.get("burst_before_tick") for x in c["series"]):
        rec.bucket("first-samples-as-a-burst-just-before-a-tick")
    if p >= 64800.0:
        rec.bucket("period-of-18-hours-or-more")
    if c["align"] is not None and c["align"] < -1e10:
        rec.bucket("alignment-point-centuries-back")
    if r.get("clock_readings_during_construction", 0) >= 1:
        rec.bucket("clock-moves-on-between-readings-while-the-resampler-is-constructed")
    created = r["created"]
    align_to = created if c["align"] is None else EPOCH + timedelta(seconds=c["align"])
    sinks = r["sinks"]
    glob = sorted({e["ts"] for lst in sinks.values() for e in lst})
    w0 = {"period": p, "align": c["align"], "created": str(created), "restarts": r["restarts"][:3]}
    if not glob:
        rec.violation("no-sample-emitted", w0)
        return
    rec.count("ticks_observed", len(glob))
    # exact grid membership and consecutive ticks
    ks = []
    for ts in glob:
        q = (ts - align_to) / per
        if abs(q - round(q)) > 1e-9 or align_to + round(q) * per != ts.astimezone(align_to.tzinfo):
            rec.violation("timestamp-not-on-the-alignment-grid", {**w0, "timestamp": str(ts), "k": q})
            return
        ks.append(round(q))
    if ks != list(range(ks[0], ks[0] + len(ks))):
        # a tick is observable only while some series is registered: a missing tick is excused when every series
        # either starts after it or was ended (scripted close/remove) before it
        have = set(ks)
        for k in range(ks[0], ks[-1] + 1):
            if k in have:
                continue
            Tk = align_to + k * per
            for i, lst in sinks.items():
                if lst and lst[0]["ts"] < Tk and (i not in r["removed"] or Tk < lst[-1]["ts"]):
                    rec.violation("tick-skipped-or-duplicated", {**w0, "ks": ks[:60], "missing_k": k, "seen_by_series": i})
                    break
            else:
                rec.count("ticks_without_any_registered_series")
                continue
            break
    if not (created <= glob[0] <= created + 2 * per):
        rec.violation("first-tick-outside-[creation,creation+2periods]", {**w0, "first": str(glob[0])})
    late_seen = False
    for i, lst in sinks.items():
        tss = [e["ts"] for e in lst]
        if tss != sorted(set(tss)):
            rec.violation("series-timestamps-repeated-or-reordered", {**w0, "series": i, "ts": [str(t) for t in tss[:40]]})
            continue
        if not tss:
            if i in r["faults"]:  # (with slow ticks in between, no bound on when its first tick would have run)
                rec.count("series_ended_before_their_first_tick_was_due")
                continue
            if r["added"][i]["at"] + 2 * per < r["stopped_at"]:
                rec.violation("series-never-received-a-sample", {**w0, "series": i})
            continue
        expect = [g for g in glob if g >= tss[0]]
        gone = r["removed"].get(i)
        if gone is not None:
            rec.bucket("series-ended:" + gone["why"])
            # an ended series: a gap-free stretch of the shared timeline, nothing after its removal
            if tss != expect[:len(tss)]:
                rec.violation("series-timestamps-not-shared-or-gapped", {**w0, "series": i, "ended": str(gone),
                                                                         "got": [str(t) for t in tss[:40]]})
            if any(e.get("t_call", e["t_recv"]) > gone["at"] for e in lst):  # (the hand-over *began* after the removal)
                rec.violation("sample-delivered-after-series-was-removed", {**w0, "series": i, "ended": str(gone)})
        elif tss != expect and tss != expect[:-1]:
            rec.violation("series-timestamps-not-shared-or-gapped", {**w0, "series": i, "got": [str(t) for t in tss[:40]],
                                                                     "global": [str(t) for t in expect[:40]]})
        add = r["added"][i]
        spec = c["series"][i]
        W = add["window_end_at_add"]
        if spec["add_at"] > 0:
            rec.bucket("series-added-during-slow-tick" if spec.get("during_tick") else "series-added-between-ticks")
            if tss[0] not in (W, W + per):
                rec.violation("added-series-does-not-start-at-current-or-next-tick",
                              {**w0, "series": i, "first": str(tss[0]), "window_end_at_add": str(W)})
        else:
            if tss[0] != glob[0]:
                rec.violation("series-added-before-start-misses-first-tick", {**w0, "series": i})
        for e in lst:
            if e["t_recv"] > e["ts"] + per:
                late_seen = True
            # a sample stamped T closes the window that ends at T: it cannot be produced before T
            if e["t_recv"] < e["ts"] - timedelta(milliseconds=1):
                rec.violation("sample-emitted-before-its-own-timestamp",
                              {**w0, "series": i, "timestamp": str(e["ts"]), "emitted_at": str(e["t_recv"])})
                return
    if late_seen:
        rec.bucket("catch-up-observed")
    # bounded progress: lateness has stopped and drain_periods (> max latency + 2) have elapsed
    if glob[-1] < r["drained_at"] - per - timedelta(microseconds=1):
        rec.violation("not-caught-up-after-lateness-stopped", {**w0, "last_tick": str(glob[-1]),
                                                               "now": str(r["drained_at"])})
    for e in r["restarts"]:
        rec.count("resample()-restarts")
        if not e["error"].startswith("ResamplingError"):
            # resample() documents ResamplingError (remove the faulty series, call again); any other exception ends
            # the loop for a caller that follows that protocol, i.e. every series stops
            rec.violation("resample()-ended-with-an-error-other-than-ResamplingError", {**w0, "error": e["error"], "at": str(e["at"])})
            return
    rec.nontrivial(len(glob) >= 8 and (any(l >= 1 for l in lats) or any(s["add_at"] > 0 for s in c["series"])
                                      or c["phase"] != 0.0))
    rec.observed({"first_tick": str(glob[0]), "ticks": len(glob), "created": str(created), "restarts": len(r["restarts"]),
                  "series": {str(i): len(v) for i, v in sinks.items()}})


FINDINGS: dict[str, Any] = {}

LEVEL_NOTE += ' Rounds 13-14: any exception other than ResamplingError out of resample() is a violation; sinks that take the sample late; actor tier with an ending source and late repeated requests.'
