"""C16 — a battery is reported usable only while its data proves it healthy.

Monitor: the real BatteryStatusTracker in virtual time, fed with generated battery / inverter
message streams (healthy or faulty in one way, fresh or stale), silences and set-power results;
every ComponentStatus is recorded with virtual time, BlockingStatus.block is observed through a
recording wrapper. Oracle: reference state machine (least demanding reading: detection latency of a
timer design is allowed), judged per *report* against the events processed up to it.
"""

from __future__ import annotations

import asyncio
import math
from datetime import datetime, timedelta, timezone
from typing import Any

from .. import batdata, fakes
from ..vloop import LoopMonitor, run_virtual

ID = "C16"
LEVEL = "fault_enumeration"
TECHNIQUE = ("runtime monitor: status notifications of the real BatteryStatusTracker in virtual time under generated "
             "message/fault/silence/set-power scripts; oracle = reference state machine over (battery ok, inverter ok, "
             "blocked-until, last status) judged per report; BlockingStatus.block observed by a recording wrapper")
LEVEL_TEXT = ("held on N generated 60 s scripts: each single fault kind on each stream (component state, relay state, "
              "critical error, missing capacity, stale timestamp), silences of 0.5x / 1x-eps / 1x+eps / 3x max age on "
              "either stream, set-power results (succeeded / failed / not mentioned) at random instants; safety (never "
              "WORKING/UNCERTAIN without fresh healthy data on both streams), promptness (NOT_WORKING at the faulty "
              "message and exactly at last receipt + max age), recovery, blocking back-off sequence and only-on-change "
              "are checked on every run. Fault enumeration over single faults, exploration over timings.")
LEVEL_NOTE = ("events are >= 3 ms apart and decision windows are 1 ms, so verdicts never depend on same-instant order; "
              "fake API / component graph; warnings (non-critical errors) count as healthy"
              ' Build phase: manager tier (outcomes as the real BatteryManager reports them), pool tier with notification conservation and repeated identical failures, identical samples delivered again, non-UTC message stamps, process in a DST zone.')
RULE = ("seeded scripts; distinct = canonical script JSON; non-trivial = >=1 fault or silence and >=1 failed set-power "
        "while working")
REQUIRED_BUCKETS = ["pool-identical-failure-message-twice", "messages-stamped-in-a-non-utc-zone", "identical-battery-sample-delivered-again-when-too-old", "manager-tier:all-calls-of-the-next-request-succeed", "manager-tier:failed-batteries-reported-uncertain", "manager-tier:blocked-battery-not-commanded-by-the-next-request", "fault:state", "fault:relay", "fault:cap", "fault:crit", "fault:stale", "inv-fault:state",
                    "inv-fault:crit", "silence>maxage:bat", "silence>maxage:inv", "silence<maxage", "set-power-failed",
                    "set-power-succeeded", "blocked-twice(back-off)", "back-off-capped", "recovered", "uncertain-seen",
                    "pool-fallback-to-uncertain", "pool-tier", "pool-fallback-to-uncertain(live)",
                    "pool-outcome-messages-back-to-back", "process-in-a-daylight-saving-zone-across-the-end-of-dst",
                    "pool-battery-turns-faulty-right-after-the-outcome-messages"]
REQUIRED_COUNTERS = ["status_reports_checked", "block_calls_observed", "scripts_run"]
ASSUMPTIONS = ["virtual clock; fake API"]

MAXAGE = 5.0
MAXBLOCK = 8.0
BAT, INV = 9, 8


def budget(tier: str) -> dict[str, Any]:
    if tier == "quick":
        return {"shards": 8, "cases": 400}
    return {"shards": 32, "cases": 2500, "hashseeds": [0, 1, 2, 3]}


def gen(rng: Any, tier: str, i: int) -> Any:
    if rng.random() < 0.15:
        return gen_pool(rng)
    if rng.random() < 0.06:
        # the outcome messages as the real BatteryManager produces them: a request whose calls all fail, then (inside
        # the blocking period) one whose calls all succeed
        from . import c15

        case = None
        while case is None or case.get("kind") != "battery" or case.get("unusable") is not None or case.get("bat_concurrent"):
            case = c15.gen(rng, tier, i)
        case.update({"kind": "manager", "followup": True, "timeout": 5.0, "latency": 0.0})
        case.pop("lat_vec", None)
        if len(case["groups"]) >= 2 and rng.random() < 0.6:
            # only the calls for some of the groups fail: their batteries are blocked while the others keep working, and
            # the next request (for all of them) is served by the working ones alone
            k = rng.randint(1, len(case["groups"]) - 1)
            case["fail_groups"] = sorted(rng.sample(range(len(case["groups"])), k))
        return case
    ev: list[list[Any]] = []
    t = 0.0
    bsil = isil = 0.0
    stuck = 0.0
    failmode = rng.random() < 0.5  # bursts of failed set-power results to walk the back-off ladder
    calm = rng.random() < 0.35     # almost no faults: lets the back-off ladder reach its cap
    while t < 60.0:
        dt = rng.choice([0.2, 0.2, 0.5, 1.0])
        t = round(t + dt, 3)
        if stuck > 0:
            # a gateway that keeps delivering the last reading of a device that went silent: the identical message
            # (same timestamp, same content) again and again
            stuck -= dt
            ev.append([round(t + 0.0015, 4), "bat", "repeat", 0.0])  # (off the 0.1 s grid: its age is never exactly the maximum)
        elif rng.random() < 0.01 and ev and any(e[1] == "bat" for e in ev):
            stuck = rng.choice([2.0, MAXAGE + 1.0, 2 * MAXAGE])
            ev.append([round(t + 0.0015, 4), "bat", "repeat", 0.0])
        elif bsil > 0:
            bsil -= dt
        elif rng.random() < (0.005 if calm else 0.04):
            bsil = rng.choice([2.0, MAXAGE - 0.1, MAXAGE + 0.3, 3 * MAXAGE])
        else:
            f = rng.choice([None] * (200 if calm else 14) + ["state", "relay", "cap", "crit", "warn"])
            age = rng.choice([0.0] * (200 if calm else 12) + [MAXAGE - 0.5, MAXAGE + 0.5])
            ev.append([t, "bat", f, age])
        if isil > 0:
            isil -= dt
        elif rng.random() < (0.005 if calm else 0.04):
            isil = rng.choice([2.0, MAXAGE - 0.1, MAXAGE + 0.3, 3 * MAXAGE])
        else:
            f = rng.choice([None] * (200 if calm else 14) + ["state", "crit"])
            age = rng.choice([0.0] * (200 if calm else 12) + [MAXAGE + 0.5])
            ev.append([round(t + 0.003, 3), "inv", f, age])
        if rng.random() < (0.3 if failmode else 0.12):
            k = rng.choice(["fail"] * (12 if calm else 3) + ["ok", "none"] if failmode else ["fail", "fail", "ok", "none"])
            ev.append([round(t + 0.006, 3), "sp", k, 0.0])
    # the process may run in a local time zone with daylight saving, and the script may straddle the end of DST
    # (2024-10-27 01:00 UTC): status decisions are about instants, not about the local wall clock
    return {"events": ev, "local_dst": rng.random() < 0.25, "msg_tz_min": rng.choice([0, 0, 0, 120, -300, 345])}


_MSG_TZ_MIN = [0]


def _msgs() -> Any:
    from frequenz.client.microgrid import (BatteryComponentState, BatteryError, BatteryErrorCode,
                                           BatteryRelayState, ErrorLevel,
                                           InverterComponentState, InverterError,
                                           InverterErrorCode)

    from .. import batdata

    def now() -> datetime:
        # (the same instant, written in the zone the devices stamp their messages in)
        return datetime.now(timezone.utc).astimezone(timezone(timedelta(minutes=_MSG_TZ_MIN[0])))

    base_b = {"cap": 1000.0, "soc": 50.0, "lo": 10.0, "hi": 90.0, "il": -1000.0, "el": 0.0, "eu": 0.0, "iu": 1000.0}
    base_i = {"il": -1000.0, "el": 0.0, "eu": 0.0, "iu": 1000.0}

    # documented sets (harness side): a battery is usable with relay CLOSED and state IDLE / CHARGING / DISCHARGING, an
    # inverter in STANDBY / IDLE / CHARGING / DISCHARGING; every other enum member disqualifies. Healthy and faulty
    # messages cycle through *all* members of the respective set.
    ok_bstate = [BatteryComponentState.IDLE, BatteryComponentState.CHARGING, BatteryComponentState.DISCHARGING]
    bad_bstate = [x for x in BatteryComponentState if x not in ok_bstate]
    bad_relay = [x for x in BatteryRelayState if x != BatteryRelayState.CLOSED]
    ok_istate = [InverterComponentState.STANDBY, InverterComponentState.IDLE, InverterComponentState.CHARGING,
                 InverterComponentState.DISCHARGING]
    bad_istate = [x for x in InverterComponentState if x not in ok_istate]
    n = {"b": 0, "i": 0}

    def bmsg(fault: str | None, age: float) -> Any:
        import dataclasses

        m = batdata.mk_battery(BAT, base_b, now() - timedelta(seconds=age))
        n["b"] += 1
        kw: dict[str, Any] = {"component_state": ok_bstate[n["b"] % len(ok_bstate)]}
        if fault == "state":
            kw["component_state"] = bad_bstate[n["b"] % len(bad_bstate)]
        if fault == "relay":
            kw["relay_state"] = bad_relay[n["b"] % len(bad_relay)]
        if fault == "cap":
            kw["capacity"] = float("nan")
        if fault == "crit":
            kw["errors"] = [BatteryError(code=BatteryErrorCode.UNSPECIFIED, level=ErrorLevel.CRITICAL, message="x")]
        if fault == "warn":
            kw["errors"] = [BatteryError(code=BatteryErrorCode.UNSPECIFIED, level=ErrorLevel.WARN, message="x")]
        return dataclasses.replace(m, **kw) if kw else m

    def imsg(fault: str | None, age: float) -> Any:
        import dataclasses

        m = batdata.mk_inverter(INV, base_i, now() - timedelta(seconds=age))
        n["i"] += 1
        kw: dict[str, Any] = {"component_state": ok_istate[n["i"] % len(ok_istate)]}
        if fault == "state":
            kw["component_state"] = bad_istate[n["i"] % len(bad_istate)]
        if fault == "crit":
            kw["errors"] = [InverterError(code=InverterErrorCode.UNSPECIFIED, level=ErrorLevel.CRITICAL, message="x")]
        return dataclasses.replace(m, **kw) if kw else m

    return bmsg, imsg


async def _drive(case: dict[str, Any], out: dict[str, Any]) -> None:
    from frequenz.channels import Broadcast

    from frequenz.sdk.microgrid._power_distributing._component_status import (
        BatteryStatusTracker, SetPowerResult)
    from frequenz.sdk.microgrid._power_distributing._component_status import _blocking_status as bs

    loop = asyncio.get_event_loop()
    comps, conns = fakes.battery_topology([([BAT], [INV])])
    api = fakes.install_connection_manager(comps, conns)
    api.rx_limit = 500
    # recording wrapper on BlockingStatus.block / unblock (hooked state, returns unchanged)
    orig_block, orig_unblock = bs.BlockingStatus.block, bs.BlockingStatus.unblock

    def block(self: Any) -> Any:
        r = orig_block(self)
        out["blocks"].append((loop.time(), r.total_seconds()))
        return r

    def unblock(self: Any) -> None:
        out["unblocks"].append(loop.time())
        orig_unblock(self)

    bs.BlockingStatus.block = block  # type: ignore[method-assign]
    bs.BlockingStatus.unblock = unblock  # type: ignore[method-assign]
    try:
        stc, spc = Broadcast(name="s"), Broadcast(name="sp")
        srx = stc.new_receiver(limit=2000)
        tr = BatteryStatusTracker(BAT, timedelta(seconds=MAXAGE), timedelta(seconds=MAXBLOCK), stc.new_sender(),
                                  spc.new_receiver(limit=200))
        tr.start()
        sptx = spc.new_sender()
        await asyncio.sleep(0.001)
        t0 = loop.time()

        async def collect() -> None:
            async for s in srx:
                out["statuses"].append((loop.time() - t0, s.value.name))

        ct = asyncio.create_task(collect())
        _MSG_TZ_MIN[0] = int(case.get("msg_tz_min") or 0)
        bmsg, imsg = _msgs()
        last_b: Any = None
        for t, kind, a, b in case["events"]:
            dt = t0 + t - loop.time()
            if dt > 0:
                await asyncio.sleep(dt)
            if kind == "bat":
                if a == "repeat" and last_b is not None:
                    await api.feed(BAT, last_b)  # the very same sample again
                    continue
                last_b = bmsg(None if a == "repeat" else a, b)
                await api.feed(BAT, last_b)
            elif kind == "inv":
                await api.feed(INV, imsg(a, b))
            else:
                await sptx.send(SetPowerResult(succeeded={BAT} if a == "ok" else set(),
                                               failed={BAT} if a == "fail" else set()))
        await asyncio.sleep(3 * MAXAGE)
        out["t0"] = t0
        out["blocks"] = [(t - t0, d) for t, d in out["blocks"]]
        out["unblocks"] = [t - t0 for t in out["unblocks"]]
        ct.cancel()
        await tr.stop()
    finally:
        bs.BlockingStatus.block = orig_block  # type: ignore[method-assign]
        bs.BlockingStatus.unblock = orig_unblock  # type: ignore[method-assign]


def _check_manager(case: dict[str, Any], rec: Any) -> None:
    from frequenz.sdk.microgrid._power_distributing.result import Success

    from . import c15

    rec.bucket("manager-tier(outcomes reported by the real BatteryManager)")
    fail_groups = case.get("fail_groups")
    vec = [("exc" if fail_groups is None or g in fail_groups else "ok") for g, grp in enumerate(case["groups"]) for _ in grp["invs"]]
    failing_invs = {batdata.inv_id(g, j) for g, grp in enumerate(case["groups"]) for j in range(len(grp["invs"]))
                    if fail_groups is None or g in fail_groups}
    out: dict[str, Any] = {"rounds": []}
    mcase = dict(case, kind="battery")
    run_virtual(lambda: c15._battery_run(mcase, vec, out), monitor=LoopMonitor())  # noqa: SLF001
    rec.count("scripts_run")
    if len(out["rounds"]) < 2 or not out.get("pool_status"):
        rec.harness_problem("manager tier: fewer than two rounds or no pool status observed")
        return
    first, second = out["rounds"][0], out["rounds"][1]
    last = out["pool_status"][-1]
    failed_first = {b for c in first["calls"] if c["id"] in failing_invs for b in first["inv_bats"][c["id"]]}
    if any(set(st["uncertain"]) & failed_first for st in out["pool_status"]):
        rec.bucket("manager-tier:failed-batteries-reported-uncertain")
    # every API call of the first request raised: each battery behind a commanded inverter that was reported working
    # before must be reported uncertain by the time the request is answered (and before the next request, 0.4 s later)
    t1 = first.get("t_done")
    if t1 is not None and failed_first:
        before = [st for st in out["pool_status"] if st["t"] < t1 - 1e-9 and not (set(st["uncertain"]) & failed_first)]
        was_working = set(before[-1]["working"]) & failed_first if before else set()
        t2 = second.get("t_done", float("inf"))
        seen = set()
        for st in out["pool_status"]:
            if st["t"] <= t2 - 0.2:
                seen |= set(st["uncertain"])
        rec.count("manager-tier:failed-commands-judged", len(was_working))
        if was_working - seen:
            rec.violation("failed-command-not-reported-uncertain",
                          {"via": "BatteryManager.distribute_power", "failed_calls": [c["id"] for c in first["calls"]],
                           "batteries_behind_them": sorted(failed_first), "never_uncertain": sorted(was_working - seen),
                           "pool_status_history": out["pool_status"][:8], "first_result": repr(first["result"])[:300]})
    res2 = second["result"]
    rec.count("status_reports_checked", len(out["pool_status"]))
    if fail_groups is not None and t1 is not None:
        # a blocked battery that the next request does not command ("not mentioned") stays blocked: its first blocking
        # period is 1 s, the second request is answered 0.4 s after the first
        commanded2 = {b for c in second["calls"] for b in second["inv_bats"][c["id"]]}
        blocked = set()
        for st in out["pool_status"]:
            if st["t"] <= second.get("t_done", t1) - 0.2:
                blocked = set(st["uncertain"]) & failed_first
        idle = blocked - commanded2
        if idle:
            rec.bucket("manager-tier:blocked-battery-not-commanded-by-the-next-request")
            early = sorted(idle - set(last["uncertain"]))
            if early and last["t"] < t1 + 0.95:
                rec.violation("blocking-ended-although-the-battery-was-not-commanded",
                              {"via": "BatteryManager.distribute_power", "batteries": early, "blocked_since": t1, "now": last["t"],
                               "second_request_commanded": sorted(commanded2), "pool_status_history": out["pool_status"][-6:],
                               "second_result": repr(res2)[:300]})
    if isinstance(res2, Success) and second["calls"]:
        rec.bucket("manager-tier:all-calls-of-the-next-request-succeed")
        still = sorted(set(res2.succeeded_components) & set(last["uncertain"]))
        if still:
            rec.violation("succeeded-command-does-not-reset-blocking",
                          {"via": "BatteryManager.distribute_power", "still_uncertain": still, "pool_status_history": out["pool_status"][-6:],
                           "second_result": repr(res2)[:300]})
    rec.nontrivial(True)
    rec.observed({"pool_status": out["pool_status"][-4:]})


def check(case: dict[str, Any], rec: Any) -> None:
    if case.get("kind") == "manager":
        _check_manager(case, rec)
        return
    if case.get("tier") == "pool":
        check_pool(case, rec)
        return
    out: dict[str, Any] = {"statuses": [], "blocks": [], "unblocks": []}
    mon = LoopMonitor()
    if case.get("local_dst"):
        import os
        import time as _time

        saved_tz = os.environ.get("TZ")
        os.environ["TZ"] = "Europe/Berlin"
        _time.tzset()
        rec.bucket("process-in-a-daylight-saving-zone-across-the-end-of-dst")
        try:
            # virtual start 2024-10-27 00:59:35 UTC: the first 25 s of the script are summer time, the rest winter time
            run_virtual(lambda: _drive(case, out), start_offset=300 * 86400 + 3575.0, monitor=mon)
        finally:
            if saved_tz is None:
                os.environ.pop("TZ", None)
            else:
                os.environ["TZ"] = saved_tz
            _time.tzset()
    else:
        run_virtual(lambda: _drive(case, out), monitor=mon)
    rec.count("scripts_run")
    if case.get("msg_tz_min"):
        rec.bucket("messages-stamped-in-a-non-utc-zone")
    statuses = out["statuses"]
    events = []
    age_of: dict[Any, float] = {}  # age of each message (by its own timestamp) when it arrived
    prev_b: Any = None  # (time sent, fault, age at that time) of the last *new* battery message
    for t, kind, a, b in case["events"]:
        if kind == "bat" and a == "repeat" and prev_b is not None:
            # the identical sample again: as old as its timestamp says
            a, b = prev_b[1], prev_b[2] + (t - prev_b[0])
            rec.bucket("identical-battery-sample-delivered-again")
            if b > MAXAGE:
                rec.bucket("identical-battery-sample-delivered-again-when-too-old")
        elif kind == "bat":
            a = None if a == "repeat" else a
            prev_b = (t, a, b)
        if kind == "bat":
            healthy = a in (None, "warn") and b <= MAXAGE
            events.append((t, "bat", healthy))
            age_of[(t, "bat")] = b
            if a not in (None, "warn"):
                rec.bucket("fault:" + a)
            if b > MAXAGE:
                rec.bucket("fault:stale")
        elif kind == "inv":
            healthy = a is None and b <= MAXAGE
            events.append((t, "inv", healthy))
            age_of[(t, "inv")] = b
            if a is not None:
                rec.bucket("inv-fault:" + a)
        else:
            events.append((t, "sp", a))
            rec.bucket("set-power-failed" if a == "fail" else ("set-power-succeeded" if a == "ok" else "set-power-none"))
    rec.count("status_reports_checked", len(statuses))
    rec.count("block_calls_observed", len(out["blocks"]))
    D = 0.001
    horizon = max(t for t, *_ in case["events"])
    w0 = {"statuses": statuses[:40]}

    def status_at(t: float) -> str:
        cur = "NOT_WORKING"
        for ts, s in statuses:
            if ts <= t + 1e-9:
                cur = s
            else:
                break
        return cur

    def ok(kind: str, t: float) -> bool:
        last = None
        for te, k, h in events:
            if k == kind and te <= t + 1e-6:  # (float noise of loop.time() differences)
                last = (te, h)
        # "the latest messages ... are younger than the maximum data age": the age of a message counts from its own
        # timestamp (a reading that is 4 s old when it arrives has 1 s left), not from its arrival
        return last is not None and bool(last[1]) and (t - last[0]) + age_of.get((last[0], kind), 0.0) <= MAXAGE + 1e-3

    def recent(t: float) -> list[Any]:
        return [e for e in events if t - 7 < e[0] <= t + 0.01][-10:]

    # only on change
    for a, b in zip(statuses, statuses[1:]):
        if a[1] == b[1]:
            rec.violation("duplicate-status-notification", {**w0, "at": b[0]})
            break
    for s in statuses:
        if s[1] == "UNCERTAIN":
            rec.bucket("uncertain-seen")
    # (0) a battery becomes UNCERTAIN only through a failed command delivered while it was WORKING
    fail_times = [te for te, k, v in events if k == "sp" and v == "fail"]
    for (ta, sa), (tb, sb_) in zip([(-1.0, "NOT_WORKING")] + statuses, statuses):
        if sb_ == "UNCERTAIN":
            rec.count("uncertain_reports_justified")
            if sa != "WORKING" or not any(abs(tb - x) <= 0.002 for x in fail_times):
                rec.violation("reported-uncertain-without-a-failed-command",
                              {**w0, "report": [tb, sb_], "previous": [ta, sa], "failed_commands_at": fail_times[:12],
                               "events": recent(tb)})
                break
    # (1) safety: every WORKING/UNCERTAIN report is justified at its own instant
    for ts, st in statuses:
        if st in ("WORKING", "UNCERTAIN") and not (ok("bat", ts) and ok("inv", ts)):
            rec.violation("reported-usable-without-fresh-healthy-data-on-both-streams",
                          {**w0, "report": [ts, st], "events": recent(ts)})
            break
    # (2) promptness: every disqualifying instant is followed by NOT_WORKING within the decision window
    dis = []
    for kind in ("bat", "inv"):
        evs = [e for e in events if e[1] == kind]
        gaps = False
        for j, (te, _, h) in enumerate(evs):
            if not h:
                dis.append((te, kind, "unhealthy-message"))
            nxt = evs[j + 1][0] if j + 1 < len(evs) else 1e9
            left = MAXAGE - age_of.get((te, kind), 0.0)  # what is left of the message's life when it arrives
            if nxt - te > left + 1e-6:
                if nxt - te > MAXAGE + 1e-6:
                    gaps = True
                elif h:
                    rec.bucket("latest-message-outlived-although-the-next-came-within-max-age-of-its-arrival")
                if h and te + left < horizon + 3 * MAXAGE - 1:
                    dis.append((te + left, kind, "silence"))
            elif nxt - te > 1.5:
                rec.bucket("silence<maxage")
        if gaps:
            rec.bucket("silence>maxage:" + kind)
    for d, kind, why in sorted(dis):
        before = status_at(d - 1e-6)
        if before in ("WORKING", "UNCERTAIN"):
            if not any(d - 1e-6 <= ts <= d + D and st == "NOT_WORKING" for ts, st in statuses):
                rec.violation("not-working-late-or-missing:" + why,
                              {**w0, "disqualified_at": d, "stream": kind, "status_before": before,
                               "events": recent(d), "reports_after": [x for x in statuses if d - 1 < x[0] < d + 7][:5]})
                break
    # (3) recovery: fresh healthy data on both streams => usable right after the completing event
    for te, k, h in events:
        if k in ("bat", "inv") and h and ok("bat", te) and ok("inv", te):
            if status_at(te - 1e-6) == "NOT_WORKING":
                rec.bucket("recovered")
            if status_at(te + D) == "NOT_WORKING":
                rec.violation("stuck-not-working-although-both-streams-healthy", {**w0, "at": te, "events": recent(te)})
                break
    # (4) blocking: reference state machine of the back-off, compared with the observed block() calls
    blocked_until: float | None = None
    last_dur = 1.0
    exp_blocks: list[tuple[float, float]] = []
    unb = sorted(out["unblocks"])
    # the block may only be reset by a succeeded command or by the recovery from NOT_WORKING (the reference below
    # follows the observed resets, so they have to be justified first)
    ok_times = [te for te, k, v in events if k == "sp" and v == "ok"]
    recoveries = [b[0] for a, b in zip([(-1.0, "NOT_WORKING")] + statuses, statuses) if a[1] == "NOT_WORKING" and b[1] == "WORKING"]
    for u in unb:
        if not any(abs(u - x) <= 0.002 for x in ok_times) and not any(abs(u - x) <= 0.002 for x in recoveries):
            rec.violation("blocking-reset-without-a-succeeded-command-or-a-recovery",
                          {**w0, "reset_at": u, "succeeded_commands_at": ok_times[:10], "recoveries_at": recoveries[:10]})
            break
    timeline = sorted([(te, "sp", v) for te, k, v in events if k == "sp"] + [(t, "unblock", None) for t in unb])
    n_consec = 0
    nontrivial_fail = False
    for te, k, v in timeline:
        if k == "unblock":
            blocked_until = None
            continue
        if v == "fail":
            st_before = status_at(te - 1e-6)
            if st_before == "NOT_WORKING":
                continue  # failures of a not-working battery are not counted
            if st_before == "WORKING":
                nontrivial_fail = True
            if blocked_until is None:
                last_dur = 1.0
                blocked_until = te + last_dur
                exp_blocks.append((te, last_dur))
                n_consec = 1
            elif abs(blocked_until - te) < 1e-6:
                # failure exactly at the block's expiry instant: both outcomes are legal; follow the observed one
                idx = len(exp_blocks)
                obs = out["blocks"][idx][1] if idx < len(out["blocks"]) else 0.0
                rec.count("failure-exactly-at-block-expiry")
                if obs == 0.0:
                    exp_blocks.append((te, 0.0))
                else:
                    last_dur = min(2 * last_dur, MAXBLOCK)
                    blocked_until = te + last_dur
                    exp_blocks.append((te, last_dur))
            elif blocked_until > te:
                exp_blocks.append((te, 0.0))
            else:
                last_dur = min(2 * last_dur, MAXBLOCK)
                blocked_until = te + last_dur
                exp_blocks.append((te, last_dur))
                n_consec += 1
                rec.bucket("blocked-twice(back-off)")
                if last_dur == MAXBLOCK:
                    rec.bucket("back-off-capped")
            if st_before == "WORKING" and ok("bat", te) and ok("inv", te):
                after = status_at(te + D)
                if after not in ("UNCERTAIN", "NOT_WORKING"):
                    rec.violation("failed-command-on-working-battery-not-reported-uncertain",
                                  {**w0, "at": te, "status_after": after, "events": recent(te)})
                    break
    got_blocks = [(round(t, 3), d) for t, d in out["blocks"]]
    exp_r = [(round(t, 3), d) for t, d in exp_blocks]
    if [d for _, d in got_blocks] != [d for _, d in exp_r] or any(abs(a[0] - b[0]) > 0.002 for a, b in zip(got_blocks, exp_r)):
        rec.violation("blocking-durations-differ-from-doubling-back-off", {**w0, "observed": got_blocks[:20],
                                                                            "expected": exp_r[:20]})
    # unblock on success: a succeeded result must clear the block
    for te, k, v in events:
        if k == "sp" and v == "ok":
            if not any(abs(u - te) <= 0.002 for u in unb):
                rec.violation("succeeded-command-does-not-reset-blocking", {**w0, "at": te})
                break
    # (5) UNCERTAIN ends at the first event after the block expires (if data still healthy)
    # (checked implicitly by (1)-(4) + only-on-change)
    # ---- pool status: uncertain only as fallback
    from frequenz.sdk.microgrid._power_distributing._component_status import ComponentPoolStatus
    import random as _r

    pr = _r.Random(len(case["events"]))
    for _ in range(20):
        allc = set(range(1, 8))
        working = {c for c in allc if pr.random() < 0.4}
        uncertain = {c for c in allc - working if pr.random() < 0.5}
        asked = {c for c in allc if pr.random() < 0.5}
        got = ComponentPoolStatus(working=set(working), uncertain=set(uncertain)).get_working_components(asked)
        exp = (working & asked) or (uncertain & asked)
        if not working & asked and uncertain & asked:
            rec.bucket("pool-fallback-to-uncertain")
        if set(got) != exp:
            rec.violation("pool-working-components-wrong", {"working": sorted(working), "uncertain": sorted(uncertain),
                                                            "asked": sorted(asked), "got": sorted(got)})
            break
    rec.nontrivial(bool(dis) and nontrivial_fail)
    rec.observed({"reports": statuses[:12], "block_calls": got_blocks[:8]})


# ------------------------------------------------------------------ pool tier
# ComponentPoolStatusTracker over several batteries (real BatteryStatusTrackers underneath): at quiescent
# checkpoints the pool status must list exactly the batteries whose own data proves them healthy as working,
# the blocked ones as uncertain, and get_working_components must fall back to uncertain only when nothing works.


def gen_pool(rng: Any) -> dict[str, Any]:
    nb = rng.randint(2, 4)
    phases = []
    for _ in range(rng.randint(2, 5)):
        phases.append({"healthy": [rng.random() < 0.7 for _ in range(nb)],
                       "fail": [rng.random() < 0.3 for _ in range(nb)],
                       "fault": [rng.choice(["state", "relay", "cap", "crit", "silence", "inv-state"]) for _ in range(nb)],
                       # further outcome messages handed over back to back (no suspension in between), each
                       # battery: "s" succeeded / "f" failed / "-" not mentioned
                       "burst": ([[rng.choice("sf--") for _ in range(nb)] for _ in range(rng.randint(1, 3))]
                                 if rng.random() < 0.5 else []),
                       # right after the outcome messages (while a failed battery is still blocked) these batteries
                       # report a faulty state: uncertain -> not working
                       "then_unhealthy": [rng.random() < 0.25 for _ in range(nb)]})
    # epilogue: the same failure message twice (the second after the first block has run out): blocked again, twice as long
    return {"tier": "pool", "nb": nb, "phases": phases, "repeat_fail": rng.random() < 0.5,
            "msg_tz_min": rng.choice([0, 0, 120, -300])}


async def _drive_pool(case: dict[str, Any], out: dict[str, Any]) -> None:
    from frequenz.channels import Broadcast

    from frequenz.sdk.microgrid._power_distributing._component_pool_status_tracker import \
        ComponentPoolStatusTracker
    from frequenz.sdk.microgrid._power_distributing._component_status import BatteryStatusTracker

    nb = case["nb"]
    groups = [([10 + b], [100 + b]) for b in range(nb)]
    comps, conns = fakes.battery_topology(groups)
    api = fakes.install_connection_manager(comps, conns)
    api.rx_limit = 500
    ch = Broadcast(name="pool", resend_latest=True)
    rx = ch.new_receiver(limit=2000)
    # every status change a battery tracker announces, counted where it hands it over (the constructor argument
    # `status_sender`); and every pool notification, counted on arrival by a second receiver
    announced: list[Any] = out.setdefault("announced", [])
    notified: list[Any] = out.setdefault("notified", [])

    class _CountingSender:
        def __init__(self, inner: Any) -> None:
            self._inner = inner

        async def send(self, msg: Any) -> None:
            announced.append((msg.component_id, msg.value.name))
            await self._inner.send(msg)

        def __getattr__(self, k: str) -> Any:
            return getattr(self._inner, k)

    class _Tracker(BatteryStatusTracker):
        def __init__(self, *a: Any, status_sender: Any, **k: Any) -> None:
            super().__init__(*a, status_sender=_CountingSender(status_sender), **k)

    rx_all = ch.new_receiver(limit=5000)

    async def _count() -> None:
        async for _st in rx_all:
            notified.append(1)

    counter_task = asyncio.create_task(_count())
    pool = ComponentPoolStatusTracker(component_ids={10 + b for b in range(nb)}, component_status_sender=ch.new_sender(),
                                      max_data_age=timedelta(seconds=MAXAGE), max_blocking_duration=timedelta(seconds=MAXBLOCK),
                                      component_status_tracker_type=_Tracker)
    await asyncio.sleep(0.01)
    _MSG_TZ_MIN[0] = int(case.get("msg_tz_min") or 0)
    bmsg, imsg = _msgs()
    import dataclasses

    for ph in case["phases"]:
        # 3 seconds of data at 0.5 s cadence in this phase's health pattern (silence: nothing is sent, 6 s)
        dur = 6.5 if any(f == "silence" and not h for f, h in zip(ph["fault"], ph["healthy"])) else 3.0
        t = 0.0
        while t < dur:
            for b in range(nb):
                h, f = ph["healthy"][b], ph["fault"][b]
                if not h and f == "silence":
                    continue
                bm = bmsg(None if h or f == "inv-state" else f, 0.0)
                im = imsg("state" if (not h and f == "inv-state") else None, 0.0)
                await api.feed(10 + b, dataclasses.replace(bm, component_id=10 + b))
                await api.feed(100 + b, dataclasses.replace(im, component_id=100 + b))
            await asyncio.sleep(0.5)
            t += 0.5
        failed = {10 + b for b in range(nb) if ph["fail"][b]}
        if failed:
            await pool.update_status(set(), failed)
        for msg in ph.get("burst", []):
            await pool.update_status({10 + b for b in range(nb) if msg[b] == "s"},
                                     {10 + b for b in range(nb) if msg[b] == "f"})
        if failed or ph.get("burst"):
            await asyncio.sleep(0.05)
        for b in range(nb):
            if ph.get("then_unhealthy", [False] * nb)[b]:
                await api.feed(10 + b, dataclasses.replace(bmsg("state", 0.0), component_id=10 + b))
        if any(ph.get("then_unhealthy", [])):
            await asyncio.sleep(0.05)
        last = None
        while rx._q:  # noqa: SLF001
            last = rx.consume()
        snap = None if last is None else {"working": sorted(last.working), "uncertain": sorted(last.uncertain)}
        cur = pool._current_status  # noqa: SLF001
        asked = {10 + b for b in range(nb)}
        out["checkpoints"].append({"phase": ph, "last_emitted": snap,
                                   "current": {"working": sorted(cur.working), "uncertain": sorted(cur.uncertain)},
                                   "get_working": sorted(pool.get_working_components(asked))})
        # let blocks expire and clear them with a success so that the next phase starts clean; every battery keeps
        # streaming healthy data meanwhile, so that a scripted silence of the next phase is the only silence
        t = 0.0
        while t < MAXBLOCK + 1.0:
            for b in range(nb):
                await api.feed(10 + b, dataclasses.replace(bmsg(None, 0.0), component_id=10 + b))
                await api.feed(100 + b, dataclasses.replace(imsg(None, 0.0), component_id=100 + b))
            await asyncio.sleep(0.5)
            t += 0.5
        await pool.update_status({10 + b for b in range(nb)}, set())
        await asyncio.sleep(0.05)
    if case.get("repeat_fail"):
        everyone = {10 + b for b in range(nb)}

        async def healthy_for(dur: float) -> None:
            t = 0.0
            while t < dur - 1e-9:
                for b in range(nb):
                    await api.feed(10 + b, dataclasses.replace(bmsg(None, 0.0), component_id=10 + b))
                    await api.feed(100 + b, dataclasses.replace(imsg(None, 0.0), component_id=100 + b))
                await asyncio.sleep(0.1)
                t += 0.1

        def snap() -> dict[str, Any]:
            cur = pool._current_status  # noqa: SLF001
            return {"working": sorted(cur.working), "uncertain": sorted(cur.uncertain)}

        await healthy_for(0.3)
        await pool.update_status(set(), set(everyone))
        await healthy_for(1.3)  # the 1 s block has run out, every battery is working again
        rep = {"before_second": snap()}
        await pool.update_status(set(), set(everyone))  # the identical outcome once more
        await healthy_for(0.3)
        rep["after_second"] = snap()
        await healthy_for(1.2)  # 1.5 s after the second failure: a doubled block (2 s) is still running
        rep["1.5s_after_second"] = snap()
        out["repeat"] = rep
        await pool.update_status(set(everyone), set())
        await asyncio.sleep(0.05)
    await asyncio.sleep(0.05)
    counter_task.cancel()
    await pool.stop()


def check_pool(case: dict[str, Any], rec: Any) -> None:
    out: dict[str, Any] = {"checkpoints": []}
    run_virtual(lambda: _drive_pool(case, out))
    rec.bucket("pool-tier")
    nb = case["nb"]
    # only on change, at the pool's channel: one pool notification per status change announced by a battery tracker
    rec.count("pool_notifications_observed", len(out.get("notified", [])))
    if len(out.get("notified", [])) != len(out.get("announced", [])):
        rec.violation("pool-notifications-differ-from-the-announced-status-changes",
                      {"batteries": nb, "status_changes_announced": len(out.get("announced", [])),
                       "pool_notifications": len(out.get("notified", [])), "first_changes": out.get("announced", [])[:12]})
        return
    for cp in out["checkpoints"]:
        ph = cp["phase"]
        healthy = {10 + b for b in range(nb) if ph["healthy"][b] and not ph.get("then_unhealthy", [False] * nb)[b]}
        if any(ph.get("then_unhealthy", [])):
            rec.bucket("pool-battery-turns-faulty-right-after-the-outcome-messages")
        # every outcome message counts, in the order handed over: a success clears the block, a failure blocks
        failed = set()
        msgs = ([["f" if x else "-" for x in ph["fail"]]] if any(ph["fail"]) else []) + ph.get("burst", [])
        for msg in msgs:
            for b in range(nb):
                if msg[b] == "s":
                    failed.discard(10 + b)
                elif msg[b] == "f":
                    failed.add(10 + b)
        if len(msgs) > 1:
            rec.bucket("pool-outcome-messages-back-to-back")
        exp_working = sorted(healthy - failed)
        exp_uncertain = sorted(healthy & failed)
        rec.count("pool_checkpoints")
        w = {"phase": ph, "observed": cp, "expected_working": exp_working, "expected_uncertain": exp_uncertain}
        if cp["current"]["working"] != exp_working or cp["current"]["uncertain"] != exp_uncertain:
            rec.violation("pool-status-differs-from-per-battery-health", w)
            continue
        if cp["last_emitted"] is not None and cp["last_emitted"] != cp["current"]:
            rec.violation("pool-status-last-notification-differs-from-current-status", w)
        exp_get = exp_working or exp_uncertain
        if exp_uncertain and not exp_working:
            rec.bucket("pool-fallback-to-uncertain(live)")
        if cp["get_working"] != exp_get:
            rec.violation("pool-get_working_components-wrong", {**w, "expected": exp_get})
    rep = out.get("repeat")
    if rep is not None:
        rec.bucket("pool-identical-failure-message-twice")
        everyone = [10 + b for b in range(nb)]
        if rep["before_second"]["working"] != everyone:
            rec.harness_problem(f"pool epilogue: batteries not all working before the second failure: {rep}")
        elif rep["after_second"]["uncertain"] != everyone or rep["1.5s_after_second"]["uncertain"] != everyone:
            rec.violation("repeated-failure-does-not-block-again-for-the-doubled-period", {"batteries": nb, "observed": rep})
    rec.nontrivial(True)
    rec.observed({"tier": "pool", "checkpoints": out["checkpoints"][:2]})


FINDINGS: dict[str, Any] = {}

LEVEL_NOTE += " Rounds 13-14: data age by the message's own timestamp; manager tier with partly failing requests and idle blocked batteries."
