"""C20 — each component message reaches every subscribed metric stream exactly once.

Monitor: the real DataSourcingActor / MicrogridApiSource over a fake API in virtual time. Message n of
the component has timestamp t0+n and every metric field set to a distinct function of (n, metric).
Receivers on the registry channels named by ComponentMetricRequest.get_channel_name() are created by
the harness before the request is sent. Oracle: per stream, consecutive n, exact (timestamp, value).
"""

from __future__ import annotations

import asyncio
from datetime import timedelta
from typing import Any

from .. import fakes
from ..vloop import EPOCH, LoopMonitor, run_virtual

ID = "C20"
LEVEL = "exploration"
TECHNIQUE = ("runtime monitor: exactly-once / in-order / value-identity check of every subscribed registry stream of "
             "the real DataSourcingActor over a fake API, every message carrying unique (n, metric)-derived values; "
             "subscription requests injected before, between and in bursts around data messages")
LEVEL_TEXT = ("held on N generated subscription/data schedules for meter, inverter, battery and EV-charger components: "
              "1-8 requests over 2 namespaces and 3-4 metrics arriving before the first message, between two, "
              "back-to-back without yields, duplicated and for unknown components; every stream is checked for holes, "
              "duplicates, order and exact values across every hand-over of the per-component streaming task.")
LEVEL_NOTE = ("fake API channel (backlog kept far below RECEIVER_MAX_SIZE); the start bound (first sample no later than "
              "the first message sent after the request was processed) is only applied to requests after which the "
              "harness lets the loop go idle; otherwise contiguity from the observed start is asserted"
              ' Build phase: all 60 metrics, requests differing only in start_time, invalid-metric requests, the actor as wired by _DataPipeline with bursts of up to 130 subscriptions.')
RULE = ("seeded schedules; distinct = canonical schedule JSON; non-trivial = >=2 subscriptions arriving at different "
        "message indices (i.e. >=1 hand-over while an existing stream is live)")
REQUIRED_BUCKETS = ["request-for-a-metric-the-component-kind-does-not-have", "requests-that-differ-only-in-start-time",
                    "kind:meter", "kind:inverter", "kind:battery", "kind:ev", "kind:pipeline", "pipeline-burst>50", "subscription-before-first-message",
                    "subscription-between-messages", "back-to-back-requests", "duplicate-request",
                    "unknown-component-request", "hand-over-with-live-stream", "two-namespaces-same-metric"]
REQUIRED_COUNTERS = ["streams_checked", "samples_checked", "schedules_run"]
ASSUMPTIONS = ["fake microgrid API; virtual time"]

CID = 7


_PH = ["ACTIVE_POWER_PHASE_", "REACTIVE_POWER_PHASE_", "CURRENT_PHASE_", "VOLTAGE_PHASE_"]
_ELEC = (["ACTIVE_POWER", "REACTIVE_POWER", "FREQUENCY"] + [p + str(k) for p in _PH for k in (1, 2, 3)])
# every metric each component category offers (harness-side table: metric name <-> message field by naming convention)
METRIC_NAMES = {
    "meter": _ELEC,
    "ev": _ELEC,
    "inverter": _ELEC + ["ACTIVE_POWER_INCLUSION_LOWER_BOUND", "ACTIVE_POWER_EXCLUSION_LOWER_BOUND",
                         "ACTIVE_POWER_EXCLUSION_UPPER_BOUND", "ACTIVE_POWER_INCLUSION_UPPER_BOUND"],
    "battery": ["SOC", "SOC_LOWER_BOUND", "SOC_UPPER_BOUND", "CAPACITY", "POWER_INCLUSION_LOWER_BOUND",
                "POWER_EXCLUSION_LOWER_BOUND", "POWER_EXCLUSION_UPPER_BOUND", "POWER_INCLUSION_UPPER_BOUND", "TEMPERATURE"],
}


def _field(metric_name: str) -> tuple[str, int | None]:
    """Message attribute (and tuple index) a metric is documented to come from."""
    for pre in _PH:
        if metric_name.startswith(pre):
            return pre[:-len("PHASE_")].lower() + "per_phase", int(metric_name[-1]) - 1
    return metric_name.lower(), None


def _metrics(kind: str) -> list[Any]:
    from frequenz.client.microgrid import ComponentMetricId as M

    return [getattr(M, n) for n in METRIC_NAMES[kind]]


def _val(n: int, kind: str, mi: int) -> float:
    """Value of metric number `mi` in message n: identifies both the message and the field; exactly 0.0 for
    some (a valid, falsy value)."""
    return 0.0 if (n + mi) % 7 == 0 else n + (mi + 1) / 100.0


_MSG_TZ_MIN = [0]


def _mkmsg(kind: str, n: int, cid: int | None = None) -> Any:
    import dataclasses

    from frequenz.client.microgrid import (EVChargerCableState, EVChargerComponentState,
                                           EVChargerData, MeterData)

    from .. import batdata

    ts = EPOCH + timedelta(seconds=n)
    if _MSG_TZ_MIN[0]:
        # the same instant, written in the zone the device / gateway stamps its messages in
        from datetime import timezone as _tz

        ts = ts.astimezone(_tz(timedelta(minutes=_MSG_TZ_MIN[0])))
    z = (0.0, 0.0, 0.0)
    if kind == "meter":
        m: Any = MeterData(component_id=CID, timestamp=ts, active_power=0.0, active_power_per_phase=z, reactive_power=0.0,
                           reactive_power_per_phase=z, current_per_phase=z, voltage_per_phase=z, frequency=0.0)
    elif kind == "inverter":
        m = batdata.mk_inverter(CID, {"il": 0.0, "el": 0.0, "eu": 0.0, "iu": 0.0}, ts)
    elif kind == "battery":
        m = batdata.mk_battery(CID, {"soc": 0.0, "cap": 0.0, "lo": 0.0, "hi": 100.0, "il": 0.0, "el": 0.0, "eu": 0.0,
                                     "iu": 0.0}, ts)
    else:
        m = EVChargerData(component_id=CID, timestamp=ts, active_power=0.0, active_power_per_phase=z,
                          current_per_phase=z, reactive_power=0.0, reactive_power_per_phase=z,
                          voltage_per_phase=z, active_power_inclusion_lower_bound=0.0,
                          active_power_exclusion_lower_bound=0.0, active_power_inclusion_upper_bound=0.0,
                          active_power_exclusion_upper_bound=0.0, frequency=0.0,
                          cable_state=EVChargerCableState.EV_LOCKED, component_state=EVChargerComponentState.CHARGING)
    fields: dict[str, Any] = {}
    for mi, name in enumerate(METRIC_NAMES[kind]):
        attr, idx = _field(name)
        if idx is None:
            fields[attr] = _val(n, kind, mi)
        else:
            t = list(fields.get(attr, z))
            t[idx] = _val(n, kind, mi)
            fields[attr] = tuple(t)
    if cid is not None:
        fields["component_id"] = cid
    return dataclasses.replace(m, **fields)


def budget(tier: str) -> dict[str, Any]:
    if tier == "quick":
        return {"shards": 8, "cases": 1200}
    return {"shards": 32, "cases": 4000, "hashseeds": [0, 1, 2, 3]}


def gen(rng: Any, tier: str, i: int) -> Any:
    if rng.random() < 0.04:
        # the same actor as the microgrid data pipeline wires it: a start-up burst of many subscriptions sent back to
        # back through _DataPipeline._data_sourcing_request_sender()
        return {"kind": "pipeline", "ncomp": 9, "nsub": rng.choice([8, 30, 50, 51, 64, 100, 130]), "nmsg": rng.randint(3, 8),
                "pseed": rng.randrange(1 << 30)}
    kind = rng.choice(["meter", "inverter", "battery", "ev"])
    nmsg = rng.randint(10, 40)
    nm = len(METRIC_NAMES[kind])
    subs = []
    for _ in range(rng.randint(1, 8)):
        subs.append([rng.choice([0, 0, rng.randint(0, nmsg - 3)]), rng.choice(["a", "b"]), rng.randrange(nm),
                     rng.random() < 0.3, rng.random() < 0.2, rng.choice([0, 0, 1, 3, 20]),
                     # start_time of the request: part of the stream's identity (2: the instant of 0, written in another zone)
                     rng.choice([None, None, None, 0, 1, 2]),
                     rng.random() < 0.12])  # followed by a request for a metric this kind of component does not have
    if rng.random() < 0.4 and len(subs) >= 2:
        at = subs[0][0]
        for s in subs[: rng.randint(2, len(subs))]:
            s[0] = at
            s[5] = 0  # back-to-back burst without yields
    subs.sort(key=lambda x: x[0])
    churn_at = None
    if len({x[0] for x in subs}) >= 2 and rng.random() < 0.25:
        # between two subscriptions the rest of the program keeps the interpreter busy with other generic types (every
        # `Broadcast[X]`, `Sender[Y]`, `dict[str, Z]` evaluated at run time goes through typing's 128-entry cache):
        # what `Sample[Quantity]` evaluates to is then a new, equal object
        times = sorted({x[0] for x in subs})
        churn_at = rng.choice(times[1:])
    return {"kind": kind, "nmsg": nmsg, "subs": subs, "typing_churn_before_msg": churn_at,
            "msg_tz_min": rng.choice([0, 0, 0, 120, -300, 345]),
            "yields": [rng.choice([0, 0, 1, 2, 10]) for _ in range(nmsg)],
            "pauses": [rng.random() < 0.2 for _ in range(nmsg)]}


_CHURN = [0]


def _typing_churn() -> None:
    """140 generic parametrisations the process has not seen before (typing caches the last 128)."""
    import typing

    T = typing.TypeVar("T")

    class _G(typing.Generic[T]):
        pass

    for _ in range(140):
        _CHURN[0] += 1
        _G[type(f"X{_CHURN[0]}", (), {})]  # pylint: disable=expression-not-assigned


async def _drive(case: dict[str, Any], out: dict[str, Any]) -> None:
    from frequenz.channels import Broadcast
    from frequenz.client.microgrid import Component, ComponentCategory, InverterType
    from frequenz.quantities import Quantity

    from frequenz.sdk._internal._channels import ChannelRegistry
    from frequenz.sdk.microgrid import connection_manager
    from frequenz.sdk.microgrid._data_sourcing import ComponentMetricRequest, DataSourcingActor
    from frequenz.sdk.timeseries import Sample
    from types import SimpleNamespace

    kind = case["kind"]
    cat = {"meter": ComponentCategory.METER, "inverter": ComponentCategory.INVERTER, "battery": ComponentCategory.BATTERY,
           "ev": ComponentCategory.EV_CHARGER}[kind]
    comps = [Component(1, ComponentCategory.GRID), Component(CID, cat, InverterType.BATTERY if kind == "inverter" else None)]
    api = fakes.FakeApi(comps)
    api.rx_limit = 500
    connection_manager._CONNECTION_MANAGER = SimpleNamespace(component_graph=None, api_client=api)  # noqa: SLF001
    mets = _metrics(kind)
    _MSG_TZ_MIN[0] = int(case.get("msg_tz_min") or 0)
    reg = ChannelRegistry(name="reg")
    reqc = Broadcast(name="req")
    actor = DataSourcingActor(reqc.new_receiver(limit=200), reg)
    actor.start()
    rtx = reqc.new_sender()
    await asyncio.sleep(0)
    streams: dict[str, Any] = out["streams"]
    si = 0
    subs = case["subs"]
    for n in range(case["nmsg"]):
        if case.get("typing_churn_before_msg") == n:
            _typing_churn()
        while si < len(subs) and subs[si][0] == n:
            _, ns, mi, dup, unknown, yields = subs[si][:6]
            st = subs[si][6] if len(subs[si]) > 6 else None
            start = None if st is None else EPOCH - timedelta(hours=1 + st)
            if st == 2:
                from datetime import timezone as _tz

                start = (EPOCH - timedelta(hours=1)).astimezone(_tz(timedelta(hours=2)))
            req = ComponentMetricRequest(ns, CID, mets[mi], start)
            name = req.get_channel_name()
            if name not in streams:
                rx = reg.get_or_create(Sample[Quantity], name).new_receiver(limit=1000)
                streams[name] = {"rx": rx, "mi": mi, "requested_before_msg": n, "idle_after_request": yields >= 20}
            await rtx.send(req)
            if dup:
                await rtx.send(req)
            if unknown:
                await rtx.send(ComponentMetricRequest(ns, 999, mets[mi], None))
            if len(subs[si]) > 7 and subs[si][7]:
                # an invalid request, like the one for an unknown component: it yields nothing and disturbs nothing
                from frequenz.client.microgrid import ComponentMetricId as _M

                foreign = _M.SOC if kind != "battery" else _M.ACTIVE_POWER
                await rtx.send(ComponentMetricRequest(ns, CID, foreign, None))
            for _ in range(yields):
                await asyncio.sleep(0)
            si += 1
        await api.feed(CID, _mkmsg(kind, n))
        for _ in range(case["yields"][n]):
            await asyncio.sleep(0)
        if case["pauses"][n]:
            await asyncio.sleep(0.1)
    await asyncio.sleep(1.0)
    for name, s in streams.items():
        got = []
        rx = s.pop("rx")
        while rx._q:  # noqa: SLF001
            x = rx.consume()
            got.append((round((x.timestamp - EPOCH).total_seconds()), None if x.value is None else x.value.base_value,
                        x.timestamp == EPOCH + timedelta(seconds=round((x.timestamp - EPOCH).total_seconds()))))
        s["got"] = got
    out["data_tasks"] = len(actor._mg_api.comp_data_tasks) if hasattr(actor, "_mg_api") else None  # noqa: SLF001
    await actor.stop()


async def _drive_pipeline(case: dict[str, Any], out: dict[str, Any]) -> None:
    import random
    from types import SimpleNamespace

    from frequenz.client.microgrid import Component, ComponentCategory
    from frequenz.quantities import Quantity

    import frequenz.sdk.microgrid  # noqa: F401
    from frequenz.sdk.microgrid import connection_manager
    from frequenz.sdk.microgrid._data_pipeline import _DataPipeline
    from frequenz.sdk.microgrid._data_sourcing import ComponentMetricRequest
    from frequenz.sdk.timeseries import Sample
    from frequenz.sdk.timeseries._resampling import ResamplerConfig

    cids = [10 + j for j in range(case["ncomp"])]
    comps = [Component(1, ComponentCategory.GRID)] + [Component(c, ComponentCategory.METER) for c in cids]
    api = fakes.FakeApi(comps)
    api.rx_limit = 500
    connection_manager._CONNECTION_MANAGER = SimpleNamespace(component_graph=None, api_client=api)  # noqa: SLF001
    dp = _DataPipeline(ResamplerConfig(resampling_period=timedelta(seconds=1)))
    tx = dp._data_sourcing_request_sender()  # noqa: SLF001  (starts the DataSourcingActor like every pool/formula does)
    reg = dp._channel_registry  # noqa: SLF001
    mets = _metrics("meter")
    pairs = [(c, mi) for c in cids for mi in range(len(mets))]
    random.Random(case["pseed"]).shuffle(pairs)
    pairs = pairs[: case["nsub"]]
    streams = out["streams"]
    reqs = []
    for c, mi in pairs:
        req = ComponentMetricRequest("ns", c, mets[mi], None)
        streams[(c, mi)] = reg.get_or_create(Sample[Quantity], req.get_channel_name()).new_receiver(limit=1000)
        reqs.append(req)
    for req in reqs:  # the burst: no suspension between the sends beyond what send() itself does
        await tx.send(req)
    await asyncio.sleep(1.0)
    for n in range(case["nmsg"]):
        for c in cids:
            await api.feed(c, _mkmsg("meter", n, cid=c))
        await asyncio.sleep(0.1)
    await asyncio.sleep(1.0)
    out["got"] = {}
    for key, rx in streams.items():
        lst = []
        while rx._q:  # noqa: SLF001
            x = rx.consume()
            lst.append((round((x.timestamp - EPOCH).total_seconds()), None if x.value is None else x.value.base_value))
        out["got"][key] = lst
    await dp._stop()  # noqa: SLF001


def _check_pipeline(case: dict[str, Any], rec: Any) -> None:
    out: dict[str, Any] = {"streams": {}}
    run_virtual(lambda: _drive_pipeline(case, out), monitor=LoopMonitor())
    rec.bucket("kind:pipeline")
    rec.bucket("pipeline-burst>50" if case["nsub"] > 50 else "pipeline-burst<=50")
    rec.count("schedules_run")
    silent = []
    for (c, mi), got in out["got"].items():
        rec.count("streams_checked")
        rec.count("samples_checked", len(got))
        exp = [(n, _val(n, "meter", mi)) for n in range(case["nmsg"])]
        if not got:
            silent.append([c, METRIC_NAMES["meter"][mi]])
        elif [g[0] for g in got] != [e[0] for e in exp] or any(g[1] is None or abs(g[1] - e[1]) > 1e-9 for g, e in zip(got, exp)):
            rec.violation("pipeline-stream-samples-differ-from-the-messages",
                          {"component": c, "metric": METRIC_NAMES["meter"][mi], "got": got[:10], "expected": exp[:10]})
            return
    if silent:
        rec.violation("subscribed-stream-received-nothing",
                      {"via": "_DataPipeline._data_sourcing_request_sender", "subscriptions_in_burst": case["nsub"],
                       "silent_streams": len(silent), "examples": silent[:5]})
    rec.nontrivial(case["nsub"] > 1)
    rec.observed({"burst": case["nsub"], "streams": len(out["got"]), "silent": len(silent)})


def check(case: dict[str, Any], rec: Any) -> None:
    if case["kind"] == "pipeline":
        _check_pipeline(case, rec)
        return
    kind, nmsg = case["kind"], case["nmsg"]
    rec.bucket("kind:" + kind)
    subs = case["subs"]
    if any(s[0] == 0 for s in subs):
        rec.bucket("subscription-before-first-message")
    if any(s[0] > 0 for s in subs):
        rec.bucket("subscription-between-messages")
    if case.get("msg_tz_min"):
        rec.bucket("messages-stamped-in-a-non-utc-zone")
    if any(len(x) > 6 and x[6] == 2 for x in subs) and any(len(x) > 6 and x[6] == 0 for x in subs):
        rec.bucket("requests-whose-start-times-are-one-instant-in-two-zones")
    if case.get("typing_churn_before_msg") is not None:
        rec.bucket("other-generic-types-evaluated-between-two-subscriptions")
    if any(s[3] for s in subs):
        rec.bucket("duplicate-request")
    if any(s[4] for s in subs):
        rec.bucket("unknown-component-request")
    if any(len(s) > 7 and s[7] for s in subs):
        rec.bucket("request-for-a-metric-the-component-kind-does-not-have")
    ats = [s[0] for s in subs]
    if len(ats) != len(set(ats)) and any(s[5] == 0 for s in subs):
        rec.bucket("back-to-back-requests")
    if len({(s[2]) for s in subs}) < len({(s[1], s[2]) for s in subs}):
        rec.bucket("two-namespaces-same-metric")
    if len(set(ats)) >= 2:
        rec.bucket("hand-over-with-live-stream")
    if len({(s[1], s[2]) for s in subs}) < len({(s[1], s[2], s[6] if len(s) > 6 else None) for s in subs}):
        rec.bucket("requests-that-differ-only-in-start-time")
    out: dict[str, Any] = {"streams": {}}
    mon = LoopMonitor()
    run_virtual(lambda: _drive(case, out), monitor=mon)
    rec.count("schedules_run")
    shown = {}
    for name, s in out["streams"].items():
        got = s["got"]
        idx = [g[0] for g in got]
        n0 = s["requested_before_msg"]
        rec.count("streams_checked")
        rec.count("samples_checked", len(got))
        w = {"stream": name, "kind": kind, "requested_before_message": n0, "received_indices": idx[:60], "nmsg": nmsg,
             "subscriptions": subs}
        if not idx:
            rec.violation("subscribed-stream-received-nothing", w)
            continue
        if idx != list(range(idx[0], idx[0] + len(idx))):
            rec.violation("samples-lost-duplicated-or-reordered", w)
            continue
        if idx[-1] != nmsg - 1:
            rec.violation("stream-stops-before-the-last-message", w)
        # start bound: only for requests after which the loop went idle (the request is then fully processed);
        # a message that was still queued at the API receiver may legitimately reach a newer subscription too
        if idx[0] < n0:
            rec.count("streams_that_also_got_queued_older_messages")
        if s["idle_after_request"] and idx[0] > n0:
            rec.violation("first-message-after-an-idle-subscription-not-delivered", w)
        rec.bucket("metric:" + METRIC_NAMES[kind][s["mi"]].lower().rstrip("_123"))
        for i, v, ts_ok in got:
            if v is None or abs(v - _val(i, kind, s["mi"])) > 1e-9 or not ts_ok:
                rec.violation("sample-value-or-timestamp-differs-from-the-message",
                              {**w, "index": i, "value": v, "expected": _val(i, kind, s["mi"]),
                               "metric": METRIC_NAMES[kind][s["mi"]]})
                break
        shown[name] = idx[:3] + ["...", idx[-1]]
    real = [e for e in mon.loop_exceptions if e["exception"] != "None"]
    if real:
        rec.count("loop_exceptions", len(real))
    rec.nontrivial(len(set(ats)) >= 2)
    rec.observed(shown)


FINDINGS: dict[str, Any] = {}

LEVEL_NOTE += ' Rounds 13-14: typing-cache churn between subscriptions; messages and start times in non-UTC zones.'
