"""C05 — formula output equals the arithmetic value of the expression.

Monitor: samples received from the real FormulaEngine.new_receiver() for engines built from
strings (ResampledFormulaBuilder.from_string over a real ChannelRegistry; Tokenizer+FormulaBuilder)
and through the Python operator/method API; oracle = exact Fraction evaluation of the harness's own
AST with a propagated forward-error bound.
"""

from __future__ import annotations

from fractions import Fraction as F
from typing import Any

from .. import formula as fm
from ..vloop import LoopMonitor, run_virtual

ID = "C05"
LEVEL = "exploration"
TECHNIQUE = ("runtime monitor: outputs of real formula engines (string and operator-API built) vs exact rational "
             "evaluation of the generating AST with a propagated forward-error bound; operator-pair coverage buckets")
LEVEL_TEXT = ("held on N generated programs (random ASTs, depth<=6, <=12 leaves, redundant parentheses/whitespace; "
              "string, tokenizer+builder and operator-API construction) x 8 input vectors each; every ordered pair of "
              "adjacent binary operators on both sides is required to be exercised. Differential testing of a small "
              "compiler against a reference semantics: exploration over programs, not a proof.")
LEVEL_NOTE = ("float comparison uses a propagated error bound sound for any association inside +/- and */÷ chains "
              "(the engine legitimately re-associates a+b-c as a+(b-c)); cases whose bound is non-discriminating are "
              "counted but not counted as non-trivial; division by exact zero is routed to C13"
              ' Build phase: API mode also re-uses intermediate builder objects in a second expression; pool mode (FormulaEnginePool.from_string); inputs beginning at different times / lacking a sample.')
RULE = ("seeded random ASTs over + - * / (strings) and + - * / min max consumption production constants (API), same "
        "engine reused as several leaves; vectors from a pool with zeros, negatives, values cancelling "
        "sub-expressions, large values and non-dyadic rationals. distinct = canonical program JSON; non-trivial = "
        ">=2 binary operators and >=1 round compared with a discriminating bound")
PAIRS = [f"pair:{p}{s}{c}" for p in fm.BINOPS for s in "LR" for c in fm.BINOPS]
REQUIRED_BUCKETS = ["string-formula-for-a-metric-that-is-not-a-power", "inputs-stamped-in-different-time-zones-and-beginning-at-different-times", "api-sub-expression-object-used-in-two-expressions", "api-sub-expression-also-built-under-the-enclosing-formula's-name", "mode:string", "mode:builder", "mode:api", "mode:api3", "redundant-parens", "same-engine-twice",
                    "api-min-max", "api-consumption-production", "api-constant", "subexpression-zero", "mode:builderx",
                    "builder-clip-step", "inputs-begin-at-different-times",
                    "distinct-engines-with-the-same-name", "mode:pool", "api-nested-builds",
                    "input-without-a-sample-for-one-timestamp"] + PAIRS
REQUIRED_COUNTERS = ["rounds_compared", "programs_run", "rounds_with_division_by_zero"]
ASSUMPTIONS = ["inputs finite; outputs compared per input timestamp; one output per input vector"]


def budget(tier: str) -> dict[str, Any]:
    if tier == "quick":
        return {"shards": 8, "cases": 3600}
    return {"shards": 32, "cases": 6000, "hashseeds": [0, 1, 2, 3]}


def gen(rng: Any, tier: str, i: int) -> Any:
    mode = rng.choice(["string", "string", "builder", "api", "api", "api3", "builderx", "pool"])
    api = mode == "api"
    nleaf = rng.randint(1, 4) if mode != "api3" else rng.randint(1, 2)
    # (3-phase engines take no constants and have no unary operators in their typed API: plain + - * / min max trees)
    ast = (fm.gen_ast(rng, rng.randint(1, 6), nleaf, api, [12], clip=(mode == "builderx")) if mode != "api3"
           else _gen_ast3(rng, rng.randint(1, 4), nleaf))
    if ast[0] == "leaf":
        ast = ["bin", rng.choice(fm.BINOPS), ast, ["leaf", rng.randrange(nleaf)]]
    prog: dict[str, Any] = {"mode": mode, "nleaf": nleaf, "ast": ast}
    if mode in ("string", "builder", "pool"):
        prog["src"] = fm.to_str(ast, rng)
    if mode == "pool":
        prog["pool_metric"] = rng.choice(["ACTIVE_POWER", "ACTIVE_POWER", "SOC", "FREQUENCY", "VOLTAGE_PHASE_1", "CAPACITY",
                                          "CURRENT_PHASE_2", "TEMPERATURE"])
    if rng.random() < 0.2:
        prog["tzmix"] = True  # every input stamps its samples in its own (fixed-offset) zone
    if mode == "api" and rng.random() < 0.4:
        prog["nest"] = True
    if mode == "api" and rng.random() < 0.3:
        # sub-expression objects are operands of other expressions as well (bits 1, 2) / are built into formulas of
        # their own under the enclosing formula's name (bit 4)
        prog["reuse"] = rng.choice([1, 2, 3, 4, 5, 6, 7])
    vecs = []
    for _ in range(8):
        r = rng.random()
        if r < 0.15:
            v = [0.0] * nleaf
        elif r < 0.3:
            x = rng.choice(fm.POOL)
            v = [x] * nleaf  # equal inputs: a-b, a/b-1 ... become exactly zero
        elif r < 0.4:
            v = [round(rng.uniform(-1e4, 1e4), 3) for _ in range(nleaf)]
        else:
            v = [rng.choice(fm.POOL) for _ in range(nleaf)]
        vecs.append(v)
    prog["vectors"] = vecs
    if mode in ("api", "api3") and nleaf >= 2 and rng.random() < 0.25:
        # distinct engines that carry the same name (every battery pool's power formula is called "battery-power"):
        # they are still different operands
        prog["leaf_names"] = [rng.choice(["power", "power", "other"]) for _ in range(nleaf)]
    if mode != "api3" and nleaf >= 2 and rng.random() < 0.35:
        # inputs that begin at different times: some streams carry 1-3 older samples (often the same number on
        # several streams), at least one stream begins with round 0
        extra = rng.randint(1, 3)
        pre = [rng.choice([0, extra, extra, rng.randint(1, 3)]) for _ in range(nleaf)]
        used = sorted(set(_leaves(ast, [])))
        pre[rng.choice(used)] = 0  # (a stream the formula reads: otherwise the older timestamps are legitimate outputs)
        if any(pre[i] for i in used):
            prog["prelude"] = pre
    if mode != "api3" and nleaf >= 2 and rng.random() < 0.2:
        # lock-step lost mid-stream: one input the formula reads has no sample for one timestamp
        prog["gap"] = [rng.randint(1, len(vecs) - 2), rng.choice(sorted(set(_leaves(ast, []))))]
        lag = [i for i in sorted(set(_leaves(ast, []))) if (prog.get("prelude") or [0] * nleaf)[i] > 0]
        if lag and rng.random() < 0.5:
            # the sample a lagging stream (one that began earlier) would have to catch up to is the one it lacks
            prog["gap"] = [0, rng.choice(lag)]
    return prog


def _gen_ast3(rng: Any, depth: int, nleaf: int) -> Any:
    if depth == 0 or rng.random() < 0.25:
        return ["leaf", rng.randrange(nleaf)]
    op = rng.choice(fm.BINOPS + ["min", "max"])
    return ["bin", op, _gen_ast3(rng, depth - 1, nleaf), _gen_ast3(rng, depth - 1, nleaf)]


def _check3(prog: dict[str, Any], out: dict[str, Any], rec: Any) -> None:
    """3-phase composition: every phase of every output equals the expression on that phase's inputs."""
    from datetime import timedelta

    ast = prog["ast"]
    compared = 0
    for k, vec in enumerate(prog["vectors"]):
        got = out["rounds"][k] if k < len(out["rounds"]) else []
        w = {"program": fm_repr(ast), "mode": "api3", "round": k, "inputs": vec, "outputs": [(str(t), v) for t, v in got]}
        refs = []
        skip = False
        for f in fm.PHASE_FACTORS:
            vals = [F(x) * F(f) for x in vec]
            if fm.div_by_zero_somewhere(ast, vals):
                skip = True
                break
            try:
                refs.append(fm.evb(ast, vals))
            except fm.IllConditioned:
                skip = True
                break
        if skip or any(r is fm.BOT for r in refs):
            rec.count("rounds_with_division_by_zero(routed to C13)")
            continue
        if len(got) != 1:
            rec.violation("not-exactly-one-output-for-input-timestamp", w)
            continue
        ts, vals3 = got[0]
        if ts != fm.T0 + timedelta(seconds=k):
            rec.violation("output-timestamp-differs-from-input-timestamp", w)
            continue
        for p, (val, (exp, bound)) in enumerate(zip(vals3, refs)):
            if val is None:
                rec.violation("none-output-for-finite-defined-expression", {**w, "phase": p + 1})
                break
            if abs(F(val) - exp) > 4 * bound + F(1, 10 ** 300):
                rec.violation("value-differs-from-expression", {**w, "phase": p + 1, "got": val, "expected": float(exp)})
                break
        compared += 1
        rec.count("rounds_compared")
    rec.nontrivial(_count_bin(ast) >= 2 and compared >= 1)
    rec.observed({"formula": "3-phase " + fm_repr(ast), "rounds_compared": compared})


def _has(a: Any, pred: Any) -> bool:
    if pred(a):
        return True
    if a[0] == "bin":
        return _has(a[2], pred) or _has(a[3], pred)
    if a[0] == "un":
        return _has(a[2], pred)
    return False


def _count_bin(a: Any) -> int:
    if a[0] == "bin":
        return 1 + _count_bin(a[2]) + _count_bin(a[3])
    if a[0] == "un":
        return _count_bin(a[2])
    return 0


def _leaves(a: Any, acc: list[int]) -> list[int]:
    if a[0] == "leaf":
        acc.append(a[1])
    elif a[0] == "bin":
        _leaves(a[2], acc)
        _leaves(a[3], acc)
    elif a[0] == "un":
        _leaves(a[2], acc)
    return acc


def _subexpr_zero(a: Any, vals: list[Any]) -> bool:
    if a[0] in ("leaf", "const"):
        return False
    try:
        r = fm.evb(a, vals)
    except fm.IllConditioned:
        return False
    if r is not fm.BOT and r[0] == 0:
        return True
    if a[0] == "un":
        return _subexpr_zero(a[2], vals)
    return _subexpr_zero(a[2], vals) or _subexpr_zero(a[3], vals)


def check(prog: dict[str, Any], rec: Any) -> None:
    ast = prog["ast"]
    rec.bucket("mode:" + prog["mode"])
    pairs: set[str] = set()
    fm.op_pairs(ast, pairs)
    for p in pairs:
        rec.bucket(p)
    if prog["mode"] in ("string", "builder") and ("((" in prog["src"].replace(" ", "") or prog["src"].strip().startswith("(")):
        rec.bucket("redundant-parens")
    lv = _leaves(ast, [])
    if len(lv) != len(set(lv)):
        rec.bucket("same-engine-twice")
    if _has(ast, lambda a: a[0] == "bin" and a[1] in ("min", "max")):
        rec.bucket("api-min-max")
    if _has(ast, lambda a: a[0] == "un" and a[1] != "clip"):
        rec.bucket("api-consumption-production")
    if _has(ast, lambda a: a[0] == "un" and a[1] == "clip"):
        rec.bucket("builder-clip-step")
    if prog.get("nest"):
        rec.bucket("api-nested-builds")
    if prog.get("reuse"):
        rec.bucket("api-sub-expression-object-used-in-two-expressions")
    if int(prog.get("reuse") or 0) & 4:
        rec.bucket("api-sub-expression-also-built-under-the-enclosing-formula's-name")
    if prog.get("prelude"):
        rec.bucket("inputs-begin-at-different-times")
    if prog.get("pool_metric") not in (None, "ACTIVE_POWER"):
        rec.bucket("string-formula-for-a-metric-that-is-not-a-power")
    if prog.get("tzmix"):
        rec.bucket("inputs-stamped-in-different-time-zones")
        if prog.get("prelude"):
            rec.bucket("inputs-stamped-in-different-time-zones-and-beginning-at-different-times")
    if prog.get("leaf_names") and len(set(prog["leaf_names"][i] for i in set(lv))) < len(set(lv)):
        rec.bucket("distinct-engines-with-the-same-name")
    if _has(ast, lambda a: a[0] == "const"):
        rec.bucket("api-constant")

    out: dict[str, Any] = {"rounds": []}
    mon = LoopMonitor()
    run_virtual(lambda: fm.run_program(prog, out), monitor=mon)
    rec.count("programs_run")
    if prog["mode"] == "api3":
        _check3(prog, out, rec)
        return
    compared = 0
    discriminating = 0
    shown = []
    for k, vec in enumerate(prog["vectors"]):
        vals = [F(x) for x in vec]
        if prog.get("gap") and prog["gap"][0] == k:
            # an input is missing altogether for this timestamp: nothing can be emitted for it, and the following
            # timestamps are unaffected
            got = out["rounds"][k] if k < len(out["rounds"]) else []
            rec.bucket("input-without-a-sample-for-one-timestamp")
            if got:
                rec.violation("output-for-a-timestamp-one-input-never-delivered",
                              {"program": prog.get("src") or fm_repr(ast), "round": k, "gap": prog["gap"],
                               "outputs": [(str(t), v) for t, v in got]})
            continue
        if prog.get("gap") and prog["gap"][0] == 0 and k == 1 and not (out["rounds"][k] if k < len(out["rounds"]) else []):
            # the first synchronisation failed on the missing sample and was repeated one timestamp later; the
            # statement is about the values that are emitted, so the silent timestamp is counted, not judged
            rec.count("timestamp_skipped_while_first_synchronisation_was_repeated")
            continue
        if fm.div_by_zero_somewhere(ast, vals):
            # a divisor that is exactly zero by construction: the expression has no value, and no number may be
            # emitted for it (exactly one sample, value None)
            got = out["rounds"][k] if k < len(out["rounds"]) else []
            rec.count("rounds_with_division_by_zero")
            wz = {"program": prog.get("src") or fm_repr(ast), "engine_formula": out.get("formula_str"),
                  "mode": prog["mode"], "round": k, "inputs": vec, "outputs": [(str(t), v) for t, v in got]}
            if len(got) != 1 or got[0][0] != fm.T0 + __import__("datetime").timedelta(seconds=k):
                rec.violation("not-exactly-one-output-for-input-timestamp", wz)
            elif got[0][1] is not None:
                rec.violation("number-emitted-for-an-undefined-expression(division-by-zero)", wz)
            continue
        try:
            ref = fm.evb(ast, vals)
        except fm.IllConditioned:
            rec.count("rounds_ill_conditioned(bound undefined)")
            continue
        if ref is fm.BOT:
            rec.count("rounds_with_division_by_zero(routed to C13)")
            continue
        exp, bound = ref
        got = out["rounds"][k] if k < len(out["rounds"]) else []
        w = {"program": prog.get("src") or fm_repr(ast), "engine_formula": out.get("formula_str"), "mode": prog["mode"],
             "round": k, "inputs": vec, "expected": float(exp), "outputs": [(str(t), v) for t, v in got]}
        if len(got) != 1:
            rec.violation("not-exactly-one-output-for-input-timestamp", w)
            continue
        ts, val = got[0]
        if ts != fm.T0 + __import__("datetime").timedelta(seconds=k):
            rec.violation("output-timestamp-differs-from-input-timestamp", w)
            continue
        if val is None:
            rec.violation("none-output-for-finite-defined-expression", w)
            continue
        compared += 1
        rec.count("rounds_compared")
        if _subexpr_zero(ast, vals):
            rec.bucket("subexpression-zero")
        if abs(F(val) - exp) > 4 * bound + F(1, 10 ** 300):
            rec.violation("value-differs-from-expression", {**w, "got": val, "error_bound": float(bound)})
        if bound <= abs(exp) * F(1, 10 ** 6) + F(1, 10 ** 9):
            discriminating += 1
        else:
            rec.count("rounds_with_weak_bound")
        if len(shown) < 2:
            shown.append({"inputs": vec, "expected": float(exp), "got": val})
    rec.nontrivial(_count_bin(ast) >= 2 and discriminating >= 1)
    rec.observed({"formula": out.get("formula_str"), "rounds": shown})


def fm_repr(a: Any) -> str:
    if a[0] == "leaf":
        return f"e{a[1]}"
    if a[0] == "const":
        return repr(a[1])
    if a[0] == "un":
        return f"{a[1]}({fm_repr(a[2])})"
    if a[1] in ("min", "max"):
        return f"{a[1]}({fm_repr(a[2])}, {fm_repr(a[3])})"
    return f"({fm_repr(a[2])} {a[1]} {fm_repr(a[3])})"


FINDINGS: dict[str, Any] = {}

LEVEL_NOTE += ' Rounds 13-14: sub-expressions built under the enclosing name, inputs in different time zones, string formulas for non-power metrics.'
