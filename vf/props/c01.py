"""C01 — battery power distribution conserves the requested power.

Monitor: recording contract on the real BatteryDistributionAlgorithm.distribute_power
(+ stage contracts for attribution), oracle = sum/sign/remainder identities.
Manager level (BatteryManager + fake API) is exercised by c15 (same identity on the
set_power calls), referenced from here through the shared fixtures.
"""

from __future__ import annotations

from typing import Any

from .. import batdata, distmon
from ..common import tol

ID = "C01"
LEVEL = "exploration"
TECHNIQUE = 'runtime monitor: recording icontract contracts on the real distribute_power (+ stage contracts) over generated in-domain data; oracle = conservation/sign/remainder identities'
LEVEL_TEXT = 'held on N generated in-domain data sets x requests observed through a contract on the real BatteryDistributionAlgorithm; conservation is a relation the oracle evaluates on every execution, with coverage buckets for the deficit, surplus, multi-inverter, zero-headroom and exponent-0 regimes. Exploration, not proof: regimes outside the generators are not covered.'
LEVEL_NOTE = 'trusts the harness-side reference aggregation (vf/batdata.group_model) for the domain filter; float tolerance 1e-6*max(1,|P|); manager-level identity is checked in C15'
RULE = ("seeded random consistent battery/inverter data sets (1-5 groups, 1-3 batteries x 1-4 inverters, "
        "boundary and skewed SoC, exclusion/inclusion bounds from value pools and uniform draws, exponent pool) "
        "with a request admitted by the advertised bounds (excl edge / incl edge / inside / surplus). "
        "distinct = distinct canonical case JSON; non-trivial = >=2 groups and (non-zero remainder or a group "
        "whose proportional share is below its min power or a multi-inverter group)")
REQUIRED_BUCKETS = ["manager-level:request-object-changed-while-in-flight", "supply", "consume", "multi-inverter", "deficit-regime", "surplus>incl", "exponent-0",
                    "zero-headroom-group", "remainder-nonzero", "manager-level", "manager-level:adjust_power=False",
                    "manager-level:api-faults", "manager-level:two-requests-for-disjoint-groups-in-flight"]
REQUIRED_COUNTERS = ["contract_public", "contract_greedy", "contract_multi", "enforced_bounds_observed",
                     "manager_results_checked"]
ASSUMPTIONS = ["float tolerance 1e-6*max(1,|power|)",
               "inputs restricted to the property's domain (consistent bounds, min power <= incl bound, "
               "|power| >= advertised exclusion bound)"]


def budget(tier: str) -> dict[str, Any]:
    if tier == "quick":
        return {"shards": 8, "cases": 50000}
    return {"shards": 32, "cases": 300000, "hashseeds": [0, 1, 2, 3, 4, 5, 6, 7]}


MANAGER_EVERY = 0.03  # fraction of cases additionally driven through the real BatteryManager + fake API


def gen(rng: Any, tier: str, i: int) -> Any:
    case = batdata.gen_case(rng)
    if case is not None and rng.random() < MANAGER_EVERY:
        case["mgr"] = True
        case["mgr_adjust"] = rng.random() < 0.5  # Request.adjust_power
        if rng.random() < 0.3:
            # slow API calls, and the owner of the (mutable) Request object changes it while the request is in flight: the
            # power reported as set is still the power commanded
            case["mgr_reuse_request"] = True
        if len(case["groups"]) >= 2 and rng.random() < 0.25:
            # two requests for disjoint battery groups are in flight at the same time (slow API calls): the power each
            # result reports as set is the power commanded for *that* request
            cut = rng.randint(1, len(case["groups"]) - 1)
            share = cut / len(case["groups"])
            case["mgr_concurrent"] = {"cut": cut, "power1": round(case["power"] * share, 3),
                                      "power2": round(case["power"] * (1 - share) * rng.choice([1.0, -0.5, 0.25]), 3)}
        elif rng.random() < 0.4:
            # "the power reported as set is the power commanded" also when the API rejects, fails or is slow: per-call
            # outcomes and a request timeout with a fractional part (replies shortly before it are successes)
            n_inv = sum(len(g["invs"]) for g in case["groups"])
            case["mgr_outcomes"] = [rng.choice(["ok", "ok", "range", "client", "exc", "hang"]) for _ in range(n_inv)]
            case["mgr_timeout"] = rng.choice([5.0, 1.5, 0.5])
            case["mgr_latency"] = rng.choice([0.0, 0.8]) * case["mgr_timeout"]
            if rng.random() < 0.5:  # calls answer after different delays (an early error next to a slower success)
                case["mgr_lat_vec"] = [rng.choice([0.0, 0.0, 0.06, 0.2, 0.8]) * case["mgr_timeout"] for _ in range(n_inv)]
    return case


def features(case: dict[str, Any], rec: Any) -> dict[str, Any]:
    up = case["power"] > 0
    ms = [batdata.group_model(g) for g in case["groups"]]
    f = {"up": up, "multi": any(len(g["invs"]) > 1 for g in case["groups"])}
    rec.bucket("consume" if up else "supply")
    if f["multi"]:
        rec.bucket("multi-inverter")
    if case["exp"] == 0:
        rec.bucket("exponent-0")
    head = [(m["headroom_up"] if up else m["headroom_dn"]) for m in ms]
    mins = [(m["min_up"] if up else m["min_dn"]) for m in ms]
    if any(h <= 1e-9 for h in head):
        rec.bucket("zero-headroom-group")
    f["zero_headroom_with_min"] = any(h <= 1e-9 and mn > 0 for h, mn in zip(head, mins))
    # proportional share below min power for some group (deficit regime)
    w = [m["cap"] * (h ** case["exp"] if h > 0 else 0.0) for m, h in zip(ms, head)]
    tw = sum(w)
    deficit = False
    if tw > 0:
        for wi, mn in zip(w, mins):
            if wi > 0 and abs(case["power"]) * wi / tw < mn:
                deficit = True
    f["deficit"] = deficit
    if deficit:
        rec.bucket("deficit-regime")
    il, el, eu, iu = batdata.advertised(case)
    if abs(case["power"]) > (iu if up else -il) + 1e-9:
        rec.bucket("surplus>incl")
    rec.bucket("power-kind:" + case.get("power_kind", "?"))
    return f


def check(case: dict[str, Any], rec: Any) -> None:
    _judge(case, rec, band=False)
    # requests the distributor itself would admit (real BatteryManager._get_bounds) although they lie
    # inside the pool-advertised exclusion zone: same oracle, separate bucket
    rec.count("enforced_bounds_observed")
    for power in distmon.band_requests(case):
        rec.bucket("enforced-band-request")
        rec.count("band_requests")
        _judge(dict(case, power=power, power_kind="enforced-band"), rec, band=True)


def _manager_concurrent(case: dict[str, Any], rec: Any) -> None:
    from ..vloop import LoopMonitor, run_virtual
    from . import c15

    mcase = dict(case, exp=1.0, kind="battery", latency=0.3, followup=False, adjust=True, timeout=5.0,
                 bat_concurrent=case["mgr_concurrent"])
    for k in ("lat_vec", "reuse_request", "unusable", "bystander"):
        mcase.pop(k, None)
    n = sum(len(g["invs"]) for g in case["groups"])
    out: dict[str, Any] = {"rounds": []}
    run_virtual(lambda: c15._battery_run(mcase, ["ok"] * n, out), monitor=LoopMonitor())  # noqa: SLF001
    rec.bucket("manager-level")
    rec.bucket("manager-level:two-requests-for-disjoint-groups-in-flight")
    for rnd in out["rounds"]:
        if rnd.get("result") is not None:
            c15._judge(mcase, ["ok"] * n, rnd, rec, first=False)  # noqa: SLF001
            rec.count("manager_results_checked")


def manager_round(case: dict[str, Any]) -> dict[str, Any]:
    """One request through the real BatteryManager (real maps, data caches, algorithm with the manager's own
    exponent, result construction) against the fake API, every call succeeding; virtual time."""
    from ..vloop import LoopMonitor, run_virtual
    from . import c15

    mcase = dict(case, exp=1.0, kind="battery", latency=case.get("mgr_latency", 0.0), followup=False,
                 adjust=case.get("mgr_adjust", True), timeout=case.get("mgr_timeout", 5.0))
    mcase.pop("lat_vec", None)
    if case.get("mgr_lat_vec"):
        mcase["lat_vec"] = case["mgr_lat_vec"]
    if case.get("mgr_reuse_request"):
        mcase["reuse_request"] = True
        mcase["latency"] = max(mcase.get("latency", 0.0), 0.3)
    n = sum(len(g["invs"]) for g in case["groups"])
    out: dict[str, Any] = {"rounds": []}
    vec = case.get("mgr_outcomes") or ["ok"] * n
    run_virtual(lambda: c15._battery_run(mcase, vec, out), monitor=LoopMonitor())  # noqa: SLF001
    return out["rounds"][0] if out["rounds"] else {}


def _manager_tier(case: dict[str, Any], rec: Any) -> None:
    from frequenz.sdk.microgrid._power_distributing.result import OutOfBounds, Success

    if case.get("mgr_concurrent"):
        _manager_concurrent(case, rec)
        return
    rnd = manager_round(case)
    rec.bucket("manager-level")
    if case.get("mgr_reuse_request"):
        rec.bucket("manager-level:request-object-changed-while-in-flight")
    if case.get("mgr_outcomes") and any(o != "ok" for o in case["mgr_outcomes"]):
        # with failing calls: the accounting of C15 (reported as set == accepted set-points, failed == rejected ones)
        from . import c15

        rec.bucket("manager-level:api-faults")
        if rnd.get("result") is not None:
            c15._judge(dict(case, kind="battery", adjust=case.get("mgr_adjust", True)), case["mgr_outcomes"], rnd, rec, first=False)  # noqa: SLF001
            rec.count("manager_results_checked")
        return
    p = case["power"]
    sgn = 1.0 if p > 0 else -1.0
    t = tol(p)
    res, calls = rnd.get("result"), rnd.get("calls", [])
    w = {"power": p, "calls": [{k: c[k] for k in ("id", "watts", "outcome")} for c in calls], "result": repr(res)[:500]}
    if isinstance(res, OutOfBounds):
        b = res.bounds
        if not case.get("mgr_adjust", True) and not (b.inclusion_lower - 1e-9 <= p <= b.inclusion_upper + 1e-9):
            rec.count("unadjustable-request-beyond-the-inclusion-bounds-refused")
            return
        for edge in (b.exclusion_lower, b.exclusion_upper):
            if edge != 0 and abs(p - edge) <= 1e-9 * max(1.0, abs(edge)):
                # a request exactly on the advertised exclusion bound is admitted (the pool and the distributor
                # compute that bound from the same numbers, with exactly rounded sums)
                rec.violation("request-on-the-advertised-exclusion-bound-refused", {**w, "enforced_exclusion": [b.exclusion_lower, b.exclusion_upper]})
                return
    if not case.get("mgr_adjust", True):
        rec.bucket("manager-level:adjust_power=False")
    if not isinstance(res, Success):
        rec.violation("manager-did-not-report-success-for-in-domain-request", w)
        return
    rec.count("manager_results_checked")
    rec.count("manager_set_power_calls", len(calls))
    commanded = sum(c["watts"] for c in calls)
    succ, exc = res.succeeded_power.as_watts(), res.excess_power.as_watts()
    w.update({"commanded": commanded, "succeeded_power": succ, "excess_power": exc})
    if not abs(commanded + exc - p) <= t:  # (NaN-safe)
        rec.violation("manager:commanded-plus-excess-differs-from-request", w)
    if not abs(succ - commanded) <= t:
        rec.violation("manager:reported-set-power-differs-from-commanded-power", w)
    if any(c["watts"] * sgn < -t for c in calls):
        rec.violation("manager:setpoint-sign", w)
    if exc * sgn < -t or abs(exc) > abs(p) + t:
        rec.violation("manager:excess-sign-or-magnitude", w)
    ids = [c["id"] for c in calls]
    if len(ids) != len(set(ids)):
        rec.violation("manager:component-commanded-twice", w)


def _judge(case: dict[str, Any], rec: Any, band: bool) -> None:
    if case.get("mgr") and not band:
        _manager_tier(case, rec)
    f = features(case, rec) if not band else {"deficit": True, "multi": False}
    out = distmon.run(case)
    rec.count("contract_public", 1 if "public" in out["stages"] else 0)
    rec.count("contract_greedy", 1 if "greedy_in" in out["stages"] else 0)
    rec.count("contract_multi", 1 if "multi_in" in out["stages"] else 0)
    p = case["power"]
    sgn = 1.0 if p > 0 else -1.0
    t = tol(p)
    dist, rem = out["distribution"], out["remaining"]
    total = sum(dist.values())
    rep = distmon.stage_report(case, out)
    witness = {"power": p, "distribution": dist, "remaining": rem, "sum_plus_remaining": total + rem,
               "stages": rep, "band": band}
    if band:
        witness["enforced_bounds"] = distmon.enforced_bounds(case)
        witness["advertised_bounds"] = batdata.advertised(case)
    if abs(rem) > t:
        rec.bucket("remainder-nonzero")
    if not band:
        rec.nontrivial(len(case["groups"]) >= 2 and (abs(rem) > t or f["deficit"] or f["multi"]))
        rec.observed({"set_points": dist, "remaining": rem, "sum_error": total + rem - p})

    expected_ids = {batdata.inv_id(g, j) for g, grp in enumerate(case["groups"]) for j in range(len(grp["invs"]))}
    if set(dist) != expected_ids:
        rec.violation("inverter-set-mismatch", {**witness, "expected_ids": sorted(expected_ids)})
    err = total + rem - p
    if not abs(err) <= t:
        rec.violation("sum-identity", {**witness, "error": err, "direction": "created" if err * sgn > 0 else "lost"})
    bad_sign = {k: v for k, v in dist.items() if not v * sgn >= -t}
    if bad_sign:
        rec.violation("setpoint-sign", {**witness, "bad": bad_sign})
    if not rem * sgn >= -t:
        rec.violation("remainder-sign", witness)
    if not abs(rem) <= abs(p) + t:
        rec.violation("remainder-magnitude", witness)


# ----------------------------------------------------------------- known-finding predicates
# Each predicate must *explain* the discrepancy from the stage record: the named stage's own
# identity is the one that fails and its error equals the public sum error.


def _f_s3_unplaced(case: dict[str, Any], v: dict[str, Any]) -> bool:
    """S3: a multi-inverter set's allocation is not fully placed because what is left after
    the earlier inverters is below the next inverter's exclusion bound; the unplaced part is
    neither commanded nor reported as remainder (power lost, never created)."""
    if v["kind"] != "sum-identity":
        return False
    d = v["detail"]
    st = d["stages"]
    if "s3_err" not in st or "s1_err" not in st:
        return False
    t = tol(d["power"])
    if abs(st["s1_err"]) > t or abs(st["s2_err"]) > t:
        return False  # another stage is (also) broken: not this mechanism
    sgn = 1.0 if d["power"] > 0 else -1.0
    if abs(st["s3_err"] - d["error"] * sgn) > 10 * t:
        return False
    # every set that lost power must be a multi-inverter set and must only lose
    for key, e in st["s3_err_by_set"].items():
        if e > t:
            return False
        if e < -t and "," not in key:
            return False
    return st["s3_err"] < -t


FINDINGS = {
    "s3-multi-inverter-split-drops-unplaceable-power": _f_s3_unplaced,
}

LEVEL_NOTE += ' Rounds 13-14: two requests for disjoint battery groups in flight at once.'
