"""C10 — actors restart after failures, only after failures, and stop cleanly.

Monitor: a probe Actor whose _run follows a per-invocation script (k await points, outcome at point
j, behaviour on cancellation), driven by a script of external calls (start/stop/cancel/wait/await/
add task) at virtual instants. Every enter/exit of _run and every return/raise of the external calls
is recorded with virtual time; oracle = trace rules of the restart policy and of stop/wait/run.
"""

from __future__ import annotations

import asyncio
import itertools
from datetime import timedelta
from typing import Any

from ..vloop import LoopMonitor, run_virtual

ID = "C10"
LEVEL = "fault_enumeration"
TECHNIQUE = ("runtime monitor: enter/exit recorder on a probe Actor's _run + recorder of stop()/wait()/run() results "
             "in virtual time; run outcomes (return / Exception / BaseException / block) injected at every await point, "
             "external calls injected at every phase (before start, during a run, during the restart delay, after "
             "completion); oracle = trace rules of the restart policy")
LEVEL_TEXT = ("outcome sequences of length <=3 over {return, Exception, BaseException, block} x fault position x "
              "restart limit {0,1,3,None} x RESTART_DELAY {0,2s} are enumerated exhaustively in the thorough tier and "
              "sampled (plus longer sequences) in the quick tier, each under generated driver scripts; additionally "
              "multi-task BackgroundServices and run(*actors) groups. Fault enumeration over a finite space, "
              "exploration over driver timings.")
LEVEL_NOTE = ("virtual time; driver calls are placed at instants that never coincide with run events (exact coincidences "
              "are genuine races); a task added to the service after stop()'s cancel() is recorded as a separate "
              "scenario"
              " Build phase: restart limit on the actor's own class or instance; helper tier (cancel_and_await incl. a second caller), context-manager tier, groups whose actors share a name.")
RULE = ("cases = (run scripts, limit, delay, driver script); distinct = canonical JSON; non-trivial = >=2 runs entered or "
        "an external call during a run / during the restart delay")
REQUIRED_BUCKETS = ["outcome:ret", "outcome:exc", "outcome:base", "outcome:block", "restart-observed",
                    "limit-exhausted", "limit:0", "limit:None", "delay:0", "delay:2", "delay:fractional", "helper:cancel_and_await",
                    "helper:on-cancel-exc", "helper:done-exception", "helper:second-stop-request-during-clean-up", "stop-during-run",
                    "stop-during-restart-delay", "stop-before-start", "stop-after-completion", "double-start",
                    "cancel-swallowed", "cancel-converted-to-exception", "extra-task", "service-multi-task",
                    "task-added-while-stop-is-waiting", "task-added-while-wait-is-waiting", "caller-of-stop-cancelled-while-stop-is-waiting", "service:task-added-while-stopping",
                    "run-group", "run-group:actors-share-a-name", "restart-after-done",
                    "service-as-context-manager:body-raises", "service-as-context-manager:task-error-at-exit"]
REQUIRED_COUNTERS = ["run_enters_observed", "external_calls_observed", "cases_run"]
ASSUMPTIONS = ["virtual time; probe actor with scripted _run"]


class ProbeBase(BaseException):
    """A BaseException that is not an Exception (like KeyboardInterrupt/SystemExit)."""


OUTCOMES = ["ret", "exc", "base", "block"]
RUNAWAY = 3000  # far above anything a legal schedule produces (<= 60 invocations in 120 virtual seconds)


def budget(tier: str) -> dict[str, Any]:
    if tier == "quick":
        return {"shards": 8, "cases": 4000}
    return {"shards": 32, "cases": 3000, "hashseeds": [0, 1, 2, 3], "exhaustive": True}


def _exhaustive_space() -> list[dict[str, Any]]:
    cases = []
    for n in (1, 2, 3):
        for outs in itertools.product(OUTCOMES, repeat=n):
            if "block" in outs[:-1] or "ret" in outs[:-1] or "base" in outs[:-1]:
                continue  # nothing follows a non-restarting outcome; covered by shorter sequences
            for pos in (0, 1, 2):
                for limit in (0, 1, 3, None):
                    for delay in (0.0, 2.0):
                        cases.append({"kind": "actor", "limit": limit, "delay": delay,
                                      "runs": [{"points": 3, "at": pos, "outcome": o, "on_cancel": "propagate"}
                                               for o in outs],
                                      "driver": [[0.25, "start"], [40.5, "stop"]], "horizon": 50.0, "exh": True})
    return cases


_EXH: list[dict[str, Any]] | None = None


def gen(rng: Any, tier: str, i: int) -> Any:
    global _EXH
    if tier == "thorough":
        if _EXH is None:
            _EXH = _exhaustive_space()
        if i < len(_EXH):
            return _EXH[i]
    kind = rng.choice(["actor"] * 12 + ["service", "group"] * 2 + ["helper"])
    if kind == "helper":
        # _internal/_asyncio.cancel_and_await on a bare task (what Resampler.stop(), FormulaEngine._stop() and the
        # pools use to stop their tasks)
        return {"kind": "helper", "state": rng.choice(["running", "running", "running", "done-result", "done-exception"]),
                "on_cancel": rng.choice(["propagate", "exc", "exc-after-cleanup", "swallow"]),
                "cleanup": rng.choice([0.0, 0.5, 3.0]),
                # a second caller asks for the same task to be stopped while its clean-up is still running
                "second_after": rng.choice([None, None, 0.1])}
    if kind == "service" and rng.random() < 0.35:
        # the service used as a context manager: leaving the block (normally or through an exception of the body)
        # stops it, and that stop surfaces the errors of its tasks like any other stop
        return {"kind": "ctx", "tasks": [{"d": rng.choice([0.5, 1.0, 3.0, 100.0]), "outcome": rng.choice(["ret", "exc", "exc", "block"]),
                                          "on_cancel": rng.choice(["propagate", "propagate", "exc"])} for _ in range(rng.randint(1, 3))],
                "body_d": rng.choice([0.25, 2.0, 5.0]), "body": rng.choice(["ok", "raise", "raise"])}
    if kind == "service":
        tasks = [{"d": rng.choice([0.0, 1.0, 3.0, 100.0]), "outcome": rng.choice(["ret", "exc", "exc2", "block", "base"]),
                  "on_cancel": rng.choice(["propagate", "propagate", "swallow", "exc"])} for _ in range(rng.randint(1, 4))]
        if rng.random() < 0.3:
            # one task registers a clean-up task with the service when it is cancelled or fails
            rng.choice(tasks)["spawn"] = rng.choice([0.4375, 0.4375, 5.0625, 1e6])
        drv = [[0.25, "start"], [rng.choice([0.5, 1.5, 2.5, 50.5]), rng.choice(["stop", "stop", "cancel+wait", "wait"])]]
        if rng.random() < 0.3:
            drv.append([drv[-1][0] + 1.25, "stop"])
        return {"kind": "service", "tasks": tasks, "driver": drv, "horizon": 400.0}
    if kind == "group":
        actors = []
        for _ in range(rng.randint(1, 3)):
            n = rng.randint(1, 3)
            runs = [{"points": rng.randint(1, 3), "at": 0, "outcome": "exc", "on_cancel": "propagate"} for _ in range(n - 1)]
            runs.append({"points": rng.randint(1, 4), "at": rng.randint(0, 2), "outcome": rng.choice(["ret", "exc", "base"]),
                         "on_cancel": "propagate"})
            for r in runs:
                r["at"] = min(r["at"], r["points"] - 1)
            actors.append({"runs": runs, "limit": rng.choice([n - 1, n, None]) if runs[-1]["outcome"] != "exc" else n - 1})
        return {"kind": "group", "actors": actors, "delay": rng.choice([0.0, 2.0]), "prestart": rng.random() < 0.3,
                "same_names": rng.random() < 0.4,
                "horizon": 200.0}
    n = rng.randint(1, 5)
    runs = []
    for j in range(n):
        pts = rng.randint(1, 4)
        o = rng.choice(["exc", "exc", "exc", "ret", "base", "block"]) if j < n - 1 else rng.choice(OUTCOMES)
        runs.append({"points": pts, "at": rng.randrange(pts), "outcome": o,
                     "on_cancel": rng.choice(["propagate", "propagate", "propagate", "swallow", "exc", "cleanup"])})
        if rng.random() < 0.25:
            # the run logic hands a clean-up / follow-up task to its service (self._tasks.add) on its way out: when it
            # is cancelled, or when it fails - i.e. a task is added while a stop() / wait() is already waiting
            runs[-1]["spawn"] = rng.choice([0.4375, 0.4375, 5.0625, 1e6])
    limit = rng.choice([0, 1, 3, None])
    delay = rng.choice([0.0, 2.0, 2.0, 2.125, 0.125])  # incl. delays with a fractional part / below one second
    drv: list[list[Any]] = []
    t = 0.25
    if rng.random() < 0.2:
        drv.append([0.125, rng.choice(["stop", "cancel", "wait"])])  # before start
    drv.append([t, "start"])
    for _ in range(rng.randint(0, 4)):
        t += rng.choice([0.25, 0.5, 1.25, 2.5, 3.25, 7.5])
        t = int(t) + rng.choice([0.5, 0.75]) if (t % 1) in (0.0, 0.25) else t
        # ("stop!": the task that awaits stop() is itself cancelled a moment later, e.g. by a timeout around the stop)
        drv.append([t, rng.choice(["stop", "stop", "cancel", "wait", "await", "start", "add_task", "add_task_late", "stop!"])])
    if rng.random() < 0.5:
        drv.append([max(t, 30.0) + 0.25 + int(rng.choice([0, 5])), "start"])  # start again later
        drv.append([drv[-1][0] + rng.choice([0.5, 3.5, 20.5]), "stop"])
    drv.sort(key=lambda x: x[0])
    return {"kind": "actor", "limit": limit, "delay": delay, "runs": runs, "driver": drv, "horizon": 120.0}


# ------------------------------------------------------------------ probe + driver


def _make_actor(script: list[dict[str, Any]], log: list[Any], name: str, display_name: str | None = None) -> Any:
    """`name` identifies the probe in the harness log; `display_name` is the (free-form, possibly repeated) label
    the actor itself is given."""
    from frequenz.sdk.actor import Actor

    class Probe(Actor):
        def __init__(self) -> None:
            super().__init__(name=display_name or name)
            self.n = 0
            self.depth = 0

        def _spawn(self, d: float) -> None:
            tk = asyncio.create_task(asyncio.sleep(d))
            self._tasks.add(tk)
            log.append({"ev": "extra", "actor": name, "task": tk, "t": asyncio.get_event_loop().time(), "abs": True,
                        "by": "run-logic", "d": d})

        async def _run(self) -> None:
            loop = asyncio.get_event_loop()
            i = self.n
            self.n += 1
            if self.n > RUNAWAY:
                # logical-step verdict: the run logic is being re-invoked in a tight loop
                if not any(e.get("ev") == "runaway" for e in log):
                    log.append({"ev": "runaway", "actor": name, "t": loop.time(), "invocations": self.n})
                raise ProbeBase()
            self.depth += 1
            log.append({"ev": "enter", "actor": name, "run": i, "t": loop.time(), "depth": self.depth})
            spec = script[i] if i < len(script) else {"points": 1, "at": 0, "outcome": "block", "on_cancel": "propagate"}
            how = "?"
            try:
                try:
                    for j in range(spec["points"]):
                        if j == spec["at"]:
                            if spec["outcome"] == "exc":
                                how = "exc"
                                if spec.get("spawn") is not None:
                                    self._spawn(spec["spawn"])
                                raise ValueError(f"scripted failure of run {i}")
                            if spec["outcome"] == "base":
                                how = "base"
                                raise ProbeBase()
                            if spec["outcome"] == "block":
                                await asyncio.sleep(1e6)
                            if spec["outcome"] == "ret":
                                how = "ret"
                                return
                        await asyncio.sleep(1.0)
                    how = "ret"
                    return
                except asyncio.CancelledError:
                    if spec["on_cancel"] == "swallow":
                        how = "swallowed"
                        return
                    if spec["on_cancel"] == "exc":
                        how = "cancel->exc"
                        raise RuntimeError("raised while being cancelled")  # pylint: disable=raise-missing-from
                    how = "cancelled"
                    if spec.get("spawn") is not None:
                        self._spawn(spec["spawn"])
                    if spec["on_cancel"] == "cleanup":
                        try:
                            await asyncio.sleep(0.4375)  # a graceful shutdown that takes a moment
                        except asyncio.CancelledError:
                            pass
                    raise
            finally:
                self.depth -= 1
                log.append({"ev": "exit", "actor": name, "run": i, "t": loop.time(), "how": how})

    return Probe()


async def _drive_actor(case: dict[str, Any], log: list[Any]) -> None:
    from frequenz.sdk.actor import Actor

    loop = asyncio.get_event_loop()
    saved_limit, saved_delay = Actor._restart_limit, Actor.RESTART_DELAY  # noqa: SLF001
    Actor.RESTART_DELAY = timedelta(seconds=case["delay"])
    try:
        a = _make_actor(case["runs"], log, "a")
        # the restart limit is configured where a user of the class would configure it: on the actor's own class
        # (half of the cases) or on the instance - the base class keeps its default
        if len(case["runs"]) % 2:
            type(a)._restart_limit = case["limit"]  # noqa: SLF001
        else:
            a._restart_limit = case["limit"]  # noqa: SLF001
        t0 = loop.time()
        bg: list[asyncio.Task[Any]] = []
        earlier_lives: set[Any] = set()

        # the harness keeps its own books about the tasks of the service (a check that reads the service's task set
        # to learn which errors are owed would believe whatever the service has forgotten)
        tracked: dict[Any, int] = {}
        collected: dict[Any, float] = {}
        life = [0]

        def track_extras() -> None:
            for e in log:
                if e.get("ev") == "extra" and "task" in e and e["task"] not in tracked:
                    tracked[e["task"]] = life[0]

        async def call(kind: str, t: float) -> None:
            entry = {"ev": "call", "what": kind, "t": t, "running_before": a.is_running,
                     "tasks_before": len(a.tasks)}
            log.append(entry)
            tasks_at_call = set(a.tasks)
            track_extras()
            life_at_call, t_call = life[0], loop.time()
            try:
                if kind in ("stop", "stop!"):
                    await a.stop()
                elif kind == "wait":
                    await a.wait()
                elif kind == "await":
                    await a
                entry["returned_at"] = loop.time() - t0
                entry["raised"] = None
            except BaseException as e:  # pylint: disable=broad-except
                entry["returned_at"] = loop.time() - t0
                entry["raised"] = type(e).__name__
                if isinstance(e, BaseExceptionGroup):
                    entry["group"] = sorted(type(x).__name__ for x in e.exceptions)
            entry["tasks_at_call_all_done"] = all(x.done() for x in tasks_at_call)
            # errors this call owes its caller: tasks of the current life that have failed by now and whose failure no
            # call that returned before this one was made has had the chance to report
            track_extras()
            owed = [x for x, lf in tracked.items() if lf == life_at_call and x.done() and not x.cancelled()
                    and x.exception() is not None and collected.get(x, float("inf")) >= t_call]
            entry["owed_errors"] = sorted(type(x.exception()).__name__ for x in owed)
            for x in tracked:
                if x.done():
                    collected.setdefault(x, loop.time())
            # every task registered with the service before this call returned (also one added while it was waiting)
            registered = set(a.tasks) | {e["task"] for e in log if e.get("ev") == "extra" and "task" in e}
            entry["registered_pending_at_return"] = sorted(
                ("added-by-" + next((e.get("by", "driver") for e in log if e.get("ev") == "extra" and e.get("task") is x), "service"))
                for x in registered if not x.done())
            entry["task_errors"] = sorted(type(x.exception()).__name__ for x in tasks_at_call - earlier_lives
                                          if x.done() and not x.cancelled() and x.exception() is not None)
            if tasks_at_call & earlier_lives:
                entry["tasks_of_an_earlier_life_still_registered"] = len(tasks_at_call & earlier_lives)
            entry["running_after"] = a.is_running

        for t, act in case["driver"]:
            dt = t0 + t - loop.time()
            if dt > 0:
                await asyncio.sleep(dt)
            if act == "start":
                log.append({"ev": "call", "what": "start", "t": t, "running_before": a.is_running})
                was_running, before = a.is_running, set(a.tasks)
                if not a.is_running:
                    # a new life begins: what the previous life left behind (finished, never collected) is not the
                    # business of a later stop() / wait()
                    earlier_lives.update(x for x in a.tasks if x.done())
                track_extras()
                a.start()
                if not was_running:
                    life[0] += 1
                for x in set(a.tasks) - before:
                    tracked[x] = life[0]
            elif act == "cancel":
                log.append({"ev": "call", "what": "cancel", "t": t, "running_before": a.is_running})
                a.cancel()
            elif act in ("add_task", "add_task_late"):
                log.append({"ev": "call", "what": act, "t": t, "running_before": a.is_running})
                tk = asyncio.create_task(asyncio.sleep(5.0 if act == "add_task" else 1e6))
                a._tasks.add(tk)  # noqa: SLF001
                log.append({"ev": "extra", "task": tk, "t": t})
            else:
                # stop/wait/await may block for long: run them as background calls so the script continues
                bg.append(asyncio.create_task(call(act, t)))
                if act == "stop!":
                    loop.call_later(0.0625, bg[-1].cancel)
        dt = t0 + case["horizon"] - loop.time()
        if dt > 0:
            await asyncio.sleep(dt)
        log.append({"ev": "end", "t": loop.time() - t0, "running": a.is_running,
                    "pending_bg": sum(1 for b in bg if not b.done())})
        for e in log:
            if e.get("ev") == "call" and e["what"] in ("stop", "wait", "await") and "returned_at" not in e:
                e["blocked_at_end"] = True
        for e in log:
            if e.get("ev") == "extra":
                e["done"] = e["task"].done()
                del e["task"]
        a.cancel()
        for b in bg:
            b.cancel()
        for e in log:
            if "t" in e and (e["ev"] in ("enter", "exit") or e.get("abs")):
                e["t"] = e["t"] - t0
    finally:
        Actor._restart_limit = saved_limit  # noqa: SLF001
        Actor.RESTART_DELAY = saved_delay


def _judge_actor(case: dict[str, Any], log: list[Any], rec: Any) -> None:
    limit, delay = case["limit"], case["delay"]
    rec.bucket(f"limit:{limit}") if limit in (0, None) else None
    rec.bucket(f"delay:{int(delay)}" if delay == int(delay) else "delay:fractional")
    runs = [e for e in log if e["ev"] in ("enter", "exit")]
    calls = [e for e in log if e["ev"] == "call"]
    rec.count("external_calls_observed", len(calls))
    enters = [e for e in runs if e["ev"] == "enter"]
    rec.count("run_enters_observed", len(enters))
    trace = [{k: v for k, v in e.items() if k != "task"} for e in log][:60]
    w0 = {"limit": limit, "delay": delay, "trace": trace}
    for e in log:
        if e.get("ev") == "runaway":
            rec.violation("run-logic-re-invoked-in-a-tight-loop", {"limit": limit, "delay": delay, "invocations": e["invocations"],
                                                                   "trace": trace[:25]})
            return
    for e in enters:
        if e["depth"] > 1:
            rec.violation("run-logic-active-twice-concurrently", w0)
            return
    # cancels delivered (cancel / stop calls) at times
    cancel_times = [c["t"] for c in calls if c["what"] in ("cancel", "stop", "stop!")]
    start_times = [c["t"] for c in calls if c["what"] == "start"]
    exits = {e["run"]: e for e in runs if e["ev"] == "exit"}
    # an explicit start() takes effect only on a non-running actor; it accounts for exactly one enter
    explicit_runs: set[int] = set()
    pos = {id(e): i for i, e in enumerate(log)}
    for c in calls:
        if c["what"] == "start" and not c["running_before"]:
            for e in enters:
                # (the enter it causes comes after the call in the log: a policy restart that entered and ended at
                # the same instant just before the call is not this start's run)
                if abs(e["t"] - c["t"]) < 1e-9 and e["run"] not in explicit_runs and pos[id(e)] > pos[id(c)]:
                    explicit_runs.add(e["run"])
                    break
    restarts_in_this_start = 0
    for idx, en in enumerate(enters):
        spec = case["runs"][en["run"]] if en["run"] < len(case["runs"]) else {"outcome": "block"}
        rec.bucket("outcome:" + spec["outcome"])
        prev = exits.get(en["run"] - 1)
        if en["run"] == 0:
            continue
        if prev is None:
            rec.violation("run-entered-before-previous-run-exited", w0)
            return
        if en["run"] in explicit_runs:
            # an explicit start(): only legal when the actor was not running
            restarts_in_this_start = 0
            rec.bucket("restart-after-done")
            continue
        # otherwise this must be a policy restart
        if prev["how"] not in ("exc", "cancel->exc"):
            rec.violation("re-invoked-after-" + prev["how"], w0)
            return
        restarts_in_this_start += 1
        rec.bucket("restart-observed")
        if abs(en["t"] - (prev["t"] + delay)) > 1e-9:
            rec.violation("restart-not-exactly-after-the-restart-delay", {**w0, "exit_t": prev["t"], "enter_t": en["t"]})
            return
        if limit is not None and restarts_in_this_start > limit:
            rec.violation("restarted-more-often-than-the-limit", w0)
            return
    # expected restarts that did not happen
    n_rest = 0
    for ex_i in sorted(exits):
        ex = exits[ex_i]
        nxt = next((e for e in enters if e["run"] == ex_i + 1), None)
        explicit_next = nxt is not None and nxt["run"] in explicit_runs
        if ex_i in explicit_runs or ex_i == 0:
            n_rest = 0
        if ex["how"] in ("exc", "cancel->exc"):
            can = limit is None or n_rest < limit
            # (a cancel at exactly exit time is the one this run converted into its exception: consumed)
            cancelled_in_delay = any(ex["t"] < c <= ex["t"] + delay + 1e-9 for c in cancel_times) if delay > 0 else False
            if ex["how"] == "cancel->exc":
                rec.bucket("cancel-converted-to-exception")
            due = ex["t"] + delay
            # a cancel at exactly the exit instant (unless it is the one this run converted) or at exactly the
            # restart instant is a genuine same-instant race: either order is a legal schedule
            race = any(abs(c - due) < 1e-9 for c in cancel_times) or \
                (ex["how"] == "exc" and any(abs(c - ex["t"]) < 1e-9 for c in cancel_times))
            if race:
                rec.count("same-instant-races-skipped")
                if can and nxt is not None and not explicit_next:
                    n_rest += 1
                continue
            if can:
                n_rest += 1
                if cancelled_in_delay:
                    rec.bucket("stop-during-restart-delay")
                    if nxt is not None and not explicit_next:
                        rec.violation("restarted-although-cancelled-during-the-restart-delay", w0)
                        return
                elif due < case["horizon"] - 1e-6 and (nxt is None or explicit_next and nxt["t"] > due + 1e-9):
                    rec.violation("not-restarted-after-unhandled-exception", {**w0, "exit": ex})
                    return
            else:
                rec.bucket("limit-exhausted")
                if nxt is not None and not explicit_next:
                    rec.violation("restarted-although-limit-exhausted", w0)
                    return
        elif ex["how"] == "swallowed":
            rec.bucket("cancel-swallowed")
    # external calls
    for c in calls:
        if c["what"] == "start" and c["running_before"]:
            rec.bucket("double-start")
        if c["what"] in ("add_task", "add_task_late"):
            rec.bucket("extra-task")
        if c["what"] == "stop!" and "returned_at" in c:
            # the task awaiting stop() was cancelled 1/16 s after the call: if stop() was still waiting then, the
            # cancellation comes out of it - it does not return normally while tasks of the service are still running
            if c["returned_at"] > c["t"] + 0.06:
                rec.bucket("caller-of-stop-cancelled-while-stop-is-waiting")
            if c["raised"] is None and c.get("registered_pending_at_return"):
                rec.violation("stop-returned-normally-although-tasks-of-the-service-are-still-running",
                              {**w0, "call": c, "pending": c["registered_pending_at_return"]})
                return
        if c["what"] in ("stop", "wait", "await"):
            if "returned_at" not in c or c.get("blocked_at_end"):
                # still blocked at the horizon: legal only if something is still running
                end = next(e for e in log if e["ev"] == "end")
                if not end["running"] and c["what"] == "stop":
                    rec.violation("stop-did-not-return-although-nothing-is-running", {**w0, "call": c})
                continue
            if not c["tasks_at_call_all_done"]:
                rec.violation(c["what"] + "-returned-before-all-tasks-finished", {**w0, "call": c})
                return
            during = [e for e in log if e["ev"] == "extra" and e.get("by") == "run-logic"
                      and c["t"] - 1e-9 <= e["t"] <= c["returned_at"] + 1e-9]
            if during:
                rec.bucket("task-added-while-" + ("stop" if c["what"] == "stop" else "wait") + "-is-waiting")
            if c.get("registered_pending_at_return"):
                # "cancels every task it spawned, returns only after all of them have finished ... extra tasks added
                # at any time": a task registered with the service before the call returned is still running
                rec.violation(c["what"] + "-returned-while-a-task-registered-with-the-service-is-still-running",
                              {**w0, "call": c, "pending": c["registered_pending_at_return"]})
                return
            if c["what"] == "stop":
                if c["tasks_before"] == 0:
                    rec.bucket("stop-before-start" if not any(s < c["t"] for s in start_times) else "stop-after-completion")
                    if c["raised"] is not None or abs(c["returned_at"] - c["t"]) > 1e-9:
                        rec.violation("stop-on-a-service-without-tasks-is-not-a-no-op", {**w0, "call": c})
                elif c["running_before"]:
                    rec.bucket("stop-during-run")
                else:
                    rec.bucket("stop-after-completion")
                # surfaces exactly the non-cancellation errors
                errs = [x for x in c["task_errors"] if x != "CancelledError"]
                got = [x for x in c.get("group", []) if x != "CancelledError"]
                if sorted(errs) != sorted(got):
                    rec.violation("stop-does-not-surface-exactly-the-task-errors",
                                  {**w0, "call": c, "task_errors": errs, "raised_group": got})
                else:
                    # the same, by the harness's own books instead of the service's task set: every failure that no
                    # earlier call could report is reported by this stop - or by another call that was in flight at the
                    # same time (a wait() that has already taken the failed task out of the set carries its error)
                    missing = list(c.get("owed_errors", []))
                    for x in got:
                        if x in missing:
                            missing.remove(x)
                    others = [x for o in calls if o is not c and o["what"] in ("stop", "wait", "await") and "returned_at" in o
                              and o["t"] <= c["returned_at"] + 1e-9 and o["returned_at"] >= c["t"] - 1e-9
                              for x in o.get("group", [])]
                    missing = [x for x in missing if x not in others]
                    if missing:
                        rec.violation("stop-does-not-surface-exactly-the-task-errors",
                                      {**w0, "call": c, "task_errors_by_the_harness_books": c["owed_errors"], "raised_group": got,
                                       "reported_by_nobody": missing})
            elif c.get("owed_errors") and c["raised"] is None and not any(
                    x in c["owed_errors"] for o in calls if o is not c and o["what"] in ("stop", "wait", "await")
                    and "returned_at" in o and o["t"] <= c["returned_at"] + 1e-9 and o["returned_at"] >= c["t"] - 1e-9
                    for x in o.get("group", [])):
                rec.violation(c["what"] + "-returned-normally-although-a-task-of-the-service-has-failed",
                              {**w0, "call": c, "task_errors_by_the_harness_books": c["owed_errors"]})
    for e in log:
        if e["ev"] == "extra":
            later_stops = [c for c in calls if c["what"] == "stop" and c["t"] > e["t"] and "returned_at" in c]
            if later_stops and not e["done"]:
                rec.violation("task-of-the-service-still-pending-after-stop-returned", {**w0, "extra": e})
    rec.nontrivial(len(enters) >= 2 or any(c["what"] in ("stop", "cancel") and c.get("running_before") for c in calls))
    rec.observed({"runs": [(e["ev"], e["run"], e["t"], e.get("how")) for e in runs][:16],
                  "calls": [(c["what"], c["t"], c.get("returned_at"), c.get("raised")) for c in calls]})


# ------------------------------------------------------------------ BackgroundService with several tasks


async def _drive_service(case: dict[str, Any], log: dict[str, Any]) -> None:
    from frequenz.sdk.actor import BackgroundService

    loop = asyncio.get_event_loop()

    async def body(spec: dict[str, Any], idx: int) -> None:
        try:
            if spec["outcome"] == "block":
                await asyncio.sleep(1e6)
            await asyncio.sleep(spec["d"])
            if spec["outcome"] == "exc":
                raise ValueError(f"task {idx}")
            if spec["outcome"] == "exc2":
                raise KeyError(f"task {idx}")
            if spec["outcome"] == "base":
                raise ProbeBase()
        except asyncio.CancelledError:
            log["cancelled"].append(idx)
            if spec["on_cancel"] == "swallow":
                return
            if spec.get("spawn") is not None:
                spawn(spec["spawn"])
            if spec["on_cancel"] == "exc":
                raise RuntimeError("while cancelled")  # pylint: disable=raise-missing-from
            raise
        except Exception:
            if spec.get("spawn") is not None:
                spawn(spec["spawn"])
            raise

    spawned: list[Any] = []

    def spawn(d: float) -> None:
        tk = asyncio.create_task(asyncio.sleep(d))
        s._tasks.add(tk)  # noqa: SLF001  (what a task of the service does to hand a follow-up task to its service)
        spawned.append(tk)
        log.setdefault("spawned", []).append({"t": loop.time() - t0, "d": d})

    class Svc(BackgroundService):
        def start(self) -> None:
            for i, s in enumerate(case["tasks"]):
                self._tasks.add(asyncio.create_task(body(s, i)))

    s = Svc(name="svc")
    t0 = loop.time()
    for t, act in case["driver"]:
        dt = t0 + t - loop.time()
        if dt > 0:
            await asyncio.sleep(dt)
        tasks = set(s.tasks)
        entry: dict[str, Any] = {"what": act, "t": t, "n_tasks": len(tasks)}
        log["calls"].append(entry)
        try:
            if act == "start":
                s.start()
            elif act == "stop":
                await asyncio.wait_for(s.stop(), 300)
            elif act == "cancel+wait":
                s.cancel()
                await asyncio.wait_for(s.wait(), 300)
            elif act == "wait":
                await asyncio.wait_for(s.wait(), 300)
            entry["raised"] = None
        except BaseException as e:  # pylint: disable=broad-except
            entry["raised"] = type(e).__name__
            if isinstance(e, BaseExceptionGroup):
                entry["group"] = sorted(type(x).__name__ for x in e.exceptions)
        entry["returned_at"] = loop.time() - t0
        entry["all_done"] = all(x.done() for x in tasks)
        entry["spawned_pending_at_return"] = sum(1 for x in spawned if not x.done())
        entry["errors"] = sorted(type(x.exception()).__name__ for x in tasks
                                 if x.done() and not x.cancelled() and x.exception() is not None)
        entry["n_cancelled"] = sum(1 for x in tasks if x.done() and x.cancelled())
    s.cancel()


def _judge_service(case: dict[str, Any], log: dict[str, Any], rec: Any) -> None:
    rec.bucket("service-multi-task") if len(case["tasks"]) > 1 else None
    w0 = {"tasks": case["tasks"], "calls": log["calls"]}
    for c in log["calls"]:
        rec.count("external_calls_observed")
        if c["what"] in ("stop", "cancel+wait", "wait") and c["n_tasks"] > 0:
            if c["raised"] == "TimeoutError":
                blockers = [t for t in case["tasks"] if t["outcome"] == "block" or t["d"] > 250]
                # a never-ending follow-up task that nobody cancels (wait() does not cancel) keeps a wait waiting
                endless = c["what"] != "stop" and any(sp["d"] > 250 and sp["t"] <= c["returned_at"] for sp in log.get("spawned", []))
                if endless:
                    continue
                if c["what"] != "wait" or not blockers:
                    if not any(t["on_cancel"] == "swallow" and False for t in case["tasks"]):
                        rec.violation(c["what"] + "-did-not-return", w0)
                continue
            if not c["all_done"]:
                rec.violation(c["what"] + "-returned-before-all-tasks-finished", w0)
                return
            if any(c["t"] - 1e-9 <= sp["t"] <= c["returned_at"] + 1e-9 for sp in log.get("spawned", [])):
                rec.bucket("service:task-added-while-stopping")
            if c.get("spawned_pending_at_return"):
                rec.violation(c["what"] + "-returned-while-a-task-registered-with-the-service-is-still-running", w0)
                return
            if c["what"] == "stop":
                got = [x for x in c.get("group", []) if x != "CancelledError"]
                if sorted(got) != sorted(c["errors"]):
                    rec.violation("stop-does-not-surface-exactly-the-task-errors",
                                  {**w0, "task_errors": c["errors"], "raised_group": got})
            else:
                want = sorted(c["errors"] + ["CancelledError"] * c["n_cancelled"])
                # wait() reports per batch of finished tasks; at least the first failing batch must surface
                if want and c["raised"] is None:
                    rec.violation("wait-hides-task-errors", w0)
    rec.nontrivial(len(case["tasks"]) >= 2)
    rec.observed({"calls": log["calls"]})


# ------------------------------------------------------------------ run(*actors)


async def _drive_group(case: dict[str, Any], log: dict[str, Any]) -> None:
    from frequenz.sdk.actor import Actor, run

    loop = asyncio.get_event_loop()
    saved_limit, saved_delay = Actor._restart_limit, Actor.RESTART_DELAY  # noqa: SLF001
    Actor.RESTART_DELAY = timedelta(seconds=case["delay"])
    try:
        actors = []
        for i, spec in enumerate(case["actors"]):
            Actor._restart_limit = spec["limit"]  # noqa: SLF001  (class attribute, read at run time)
            # (several different actors of one class may carry the same name: they are still different actors)
            actors.append(_make_actor(spec["runs"], log["events"], f"a{i}", "worker" if case.get("same_names") else None))
        # the limit is a class attribute: use the max so that every scripted sequence can play out
        lims = [s["limit"] for s in case["actors"]]
        Actor._restart_limit = None if any(x is None for x in lims) else max(lims)  # noqa: SLF001
        log["limit_used"] = Actor._restart_limit  # noqa: SLF001
        t0 = loop.time()
        if case.get("prestart"):
            actors[0].start()
        try:
            await asyncio.wait_for(run(*actors), case["horizon"])
            log["returned_at"] = loop.time() - t0
        except asyncio.TimeoutError:
            log["returned_at"] = None
        except BaseException as e:  # pylint: disable=broad-except
            log["returned_at"] = loop.time() - t0
            log["raised"] = type(e).__name__
        log["running_after"] = [a.is_running for a in actors]
        for e in log["events"]:
            e["t"] -= t0
        for a in actors:
            a.cancel()
    finally:
        Actor._restart_limit = saved_limit  # noqa: SLF001
        Actor.RESTART_DELAY = saved_delay


def _judge_group(case: dict[str, Any], log: dict[str, Any], rec: Any) -> None:
    rec.bucket("run-group")
    if case.get("same_names") and len(case["actors"]) > 1:
        rec.bucket("run-group:actors-share-a-name")
    ev = log["events"]
    rec.count("run_enters_observed", sum(1 for e in ev if e["ev"] == "enter"))
    w0 = {"actors": case["actors"], "events": ev[:40], "returned_at": log.get("returned_at"), "limit_used": log.get("limit_used")}
    last_exit = max((e["t"] for e in ev if e["ev"] == "exit"), default=None)
    blocked = any(e["ev"] == "enter" and not any(x["ev"] == "exit" and x["actor"] == e["actor"] and x["run"] == e["run"]
                                                  for x in ev) for e in ev)
    if log.get("raised"):
        rec.violation("run()-raised", w0)
        return
    if log["returned_at"] is None:
        if not blocked and not any(log["running_after"]):
            rec.violation("run()-did-not-return-although-all-actors-finished", w0)
        return
    if any(log["running_after"]):
        rec.violation("run()-returned-while-an-actor-is-still-running", w0)
    elif last_exit is not None and abs(log["returned_at"] - last_exit) > 1e-6:
        rec.violation("run()-did-not-return-exactly-when-the-last-actor-finished", {**w0, "last_exit": last_exit})
    rec.nontrivial(len(case["actors"]) >= 2)
    rec.observed({"returned_at": log["returned_at"], "last_exit": last_exit})


class _BodyError(Exception):
    pass


async def _drive_ctx(case: dict[str, Any], out: dict[str, Any]) -> None:
    import asyncio

    from frequenz.sdk.actor import BackgroundService

    loop = asyncio.get_event_loop()

    async def work(spec: dict[str, Any], idx: int) -> None:
        try:
            if spec["outcome"] == "block":
                await asyncio.sleep(1e6)
            await asyncio.sleep(spec["d"])
            if spec["outcome"] == "exc":
                raise ValueError(f"task {idx}")
        except asyncio.CancelledError:
            if spec["on_cancel"] == "exc":
                raise RuntimeError("while cancelled") from None
            raise

    class Svc(BackgroundService):
        def start(self) -> None:
            for i, sp in enumerate(case["tasks"]):
                self._tasks.add(asyncio.create_task(work(sp, i)))

    svc = Svc(name="ctx")
    t0 = loop.time()
    tasks: set[Any] = set()
    try:
        async with svc:
            tasks = set(svc.tasks)
            await asyncio.sleep(case["body_d"])
            if case["body"] == "raise":
                raise _BodyError("body failed")
        out["raised"] = None
    except BaseException as e:  # pylint: disable=broad-except
        out["raised"] = type(e).__name__
        if isinstance(e, BaseExceptionGroup):
            out["group"] = sorted(type(x).__name__ for x in e.exceptions)
    out["left_at"] = loop.time() - t0
    out["all_done"] = all(t.done() for t in tasks)
    out["errors"] = sorted(type(t.exception()).__name__ for t in tasks
                           if t.done() and not t.cancelled() and t.exception() is not None)
    svc.cancel()


def _judge_ctx(case: dict[str, Any], out: dict[str, Any], rec: Any) -> None:
    rec.bucket("service-as-context-manager")
    if case["body"] == "raise":
        rec.bucket("service-as-context-manager:body-raises")
    w = {"case": case, "observed": out}
    rec.nontrivial(True)
    rec.observed(out)
    if not out.get("all_done"):
        rec.violation("context-exit-returned-before-all-tasks-finished", w)
        return
    got = [x for x in out.get("group", []) if x != "CancelledError"]
    if out["errors"]:
        rec.bucket("service-as-context-manager:task-error-at-exit")
        if out["raised"] not in ("BaseExceptionGroup", "ExceptionGroup") or sorted(got) != out["errors"]:
            rec.violation("context-exit-does-not-surface-the-task-errors", {**w, "task_errors": out["errors"]})
    elif out["raised"] not in (None, "_BodyError", "BaseExceptionGroup", "ExceptionGroup"):
        rec.violation("context-exit-raised-something-else", w)


class _HelperBoom(Exception):
    pass


class _HelperBase(BaseException):
    pass


async def _drive_helper(case: dict[str, Any], out: dict[str, Any]) -> None:
    import asyncio

    from frequenz.sdk._internal._asyncio import cancel_and_await

    loop = asyncio.get_event_loop()

    async def body() -> str:
        if case["state"] == "done-result":
            return "r"
        if case["state"] == "done-exception":
            raise _HelperBoom("already failed")
        try:
            await asyncio.sleep(1000)
        except asyncio.CancelledError:
            out["cancel_delivered_at"] = loop.time()
            if case["on_cancel"] == "propagate":
                raise
            if case["cleanup"]:
                await asyncio.sleep(case["cleanup"])
            if case["on_cancel"] in ("exc", "exc-after-cleanup"):
                raise _HelperBoom("clean-up failed") from None
            if case["on_cancel"] == "base":
                raise _HelperBase("clean-up failed badly") from None
        return "swallowed"

    task = asyncio.create_task(body())
    await asyncio.sleep(0.25)
    out["done_before"] = task.done()
    out["called_at"] = loop.time()

    async def second_caller() -> None:
        await asyncio.sleep(case["second_after"])
        sec: dict[str, Any] = {"called_at": loop.time(), "done_before": task.done()}
        try:
            await cancel_and_await(task)
            sec["raised"] = None
        except BaseException as e:  # pylint: disable=broad-except
            sec["raised"] = type(e).__name__
        sec["returned_at"] = loop.time()
        sec["done_at_return"] = task.done()
        out["second"] = sec

    second = asyncio.create_task(second_caller()) if case.get("second_after") else None
    try:
        await cancel_and_await(task)
        out["raised"] = None
    except BaseException as e:  # pylint: disable=broad-except
        out["raised"] = type(e).__name__
    out["returned_at"] = loop.time()
    out["done_after"] = task.done()
    if second is not None:
        await asyncio.wait([second], timeout=10)
    if not task.done():
        task.cancel()
    try:
        await task
    except BaseException:  # pylint: disable=broad-except
        pass


def _judge_helper(case: dict[str, Any], out: dict[str, Any], rec: Any) -> None:
    rec.bucket("helper:cancel_and_await")
    rec.bucket("helper:" + (case["state"] if case["state"] != "running" else "on-cancel-" + case["on_cancel"]))
    w = {"case": case, "observed": out}
    rec.nontrivial(case["state"] == "running")
    rec.observed(out)
    if not out.get("done_after"):
        rec.violation("cancel_and_await-returned-before-the-task-finished", w)
        return
    sec = out.get("second")
    if sec is not None and not sec["done_before"]:
        # the second request arrived while the task was still cleaning up: it, too, returns only once the task is done
        rec.bucket("helper:second-stop-request-during-clean-up")
        if not sec["done_at_return"]:
            rec.violation("cancel_and_await-returned-before-the-task-finished", {**w, "caller": "second"})
        return  # (the second cancellation cuts the clean-up short: the first caller's timing is not the scripted one)
    if case["state"] != "running":
        # documented: exits immediately if the task is already done
        if out["returned_at"] != out["called_at"] or out["raised"] is not None:
            rec.violation("cancel_and_await-on-a-finished-task-waited-or-raised", w)
        return
    cleanup = 0.0 if case["on_cancel"] == "propagate" else case["cleanup"]
    if abs(out["returned_at"] - (out["called_at"] + cleanup)) > 1e-9:
        rec.violation("cancel_and_await-did-not-return-when-the-task-finished", w)
    expect = {"propagate": None, "swallow": None, "exc": "_HelperBoom", "exc-after-cleanup": "_HelperBoom",
              "base": "_HelperBase"}[case["on_cancel"]]
    if out["raised"] != expect:
        rec.violation("cancel_and_await-does-not-surface-the-task's-non-cancellation-error"
                      if expect else "cancel_and_await-raised-for-a-cleanly-cancelled-task", {**w, "expected": expect})


def check(case: dict[str, Any], rec: Any) -> None:
    mon = LoopMonitor()
    rec.count("cases_run")
    if case["kind"] == "ctx":
        cout: dict[str, Any] = {}
        run_virtual(lambda: _drive_ctx(case, cout), monitor=mon)
        _judge_ctx(case, cout, rec)
        return
    if case["kind"] == "helper":
        hout: dict[str, Any] = {}
        run_virtual(lambda: _drive_helper(case, hout), monitor=mon)
        _judge_helper(case, hout, rec)
        return
    if case["kind"] == "actor":
        log: list[Any] = []
        run_virtual(lambda: _drive_actor(case, log), monitor=mon)
        _judge_actor(case, log, rec)
    elif case["kind"] == "service":
        slog: dict[str, Any] = {"calls": [], "cancelled": []}
        run_virtual(lambda: _drive_service(case, slog), monitor=mon)
        _judge_service(case, slog, rec)
    else:
        glog: dict[str, Any] = {"events": []}
        run_virtual(lambda: _drive_group(case, glog), monitor=mon)
        _judge_group(case, glog, rec)


FINDINGS: dict[str, Any] = {}

LEVEL_NOTE += " Rounds 13-14: tasks registered while stop()/wait() are waiting; the harness's own books of owed errors; the caller of stop() cancelled mid-stop."
