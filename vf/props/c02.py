"""C02 — no inverter or battery group is commanded outside its power bounds.

Same recording contract as C01; oracle = per-inverter inclusion/exclusion membership,
per-group battery bounds membership, zero for groups without SoC headroom.
"""

from __future__ import annotations

from typing import Any

from .. import batdata, distmon
from ..common import tol
from . import c01

ID = "C02"
LEVEL = "exploration"
TECHNIQUE = 'runtime monitor: recording contract on the real distribute_power; oracle = per-inverter and per-group bound membership and zero for no-headroom groups'
LEVEL_TEXT = 'held (apart from the listed known finding) on N generated in-domain data sets incl. boundary requests; every non-zero set-point and group total observed is checked against the bounds given as input.'
LEVEL_NOTE = 'same domain and tolerance as C01; group battery bounds aggregated per the documented rule (sum of inclusion, max exclusion x count)'
RULE = ("same generated domain as C01, with boundary requests (exactly the advertised exclusion bound, exactly the "
        "inclusion bound) and full/empty batteries next to non-zero exclusion bounds. distinct = canonical case "
        "JSON; non-trivial = some non-zero set-point AND (a non-zero exclusion bound in the request direction or "
        "a zero-headroom group or a multi-inverter group)")
REQUIRED_BUCKETS = ["supply", "consume", "multi-inverter", "zero-headroom-group", "zero-headroom-with-min-power",
                    "power-kind:excl-edge", "power-kind:incl-edge", "nonzero-exclusion", "exponent-0", "manager-level", "manager-level:request-after-an-inverter-reported-narrower-bounds",
                    "setpoint-on-incl-bound", "setpoint-on-excl-bound"]
REQUIRED_COUNTERS = ["contract_public", "inverter_setpoints_checked", "group_totals_checked", "enforced_bounds_observed",
                     "gate_probes_inside_the_exclusion_zone"]
ASSUMPTIONS = ["float tolerance 1e-6*max(1,|power|)", "domain as C01"]


def budget(tier: str) -> dict[str, Any]:
    if tier == "quick":
        return {"shards": 8, "cases": 50000}
    return {"shards": 32, "cases": 300000, "hashseeds": [0, 1, 2, 3, 4, 5, 6, 7]}


def gen(rng: Any, tier: str, i: int) -> Any:
    case = batdata.gen_case(rng, mode=rng.choice(["plain", "plain", "deficit", "multi", "edge"]))
    if case is not None and rng.random() < c01.MANAGER_EVERY:
        case["mgr"] = True
    return case


def check(case: dict[str, Any], rec: Any) -> None:
    _judge(case, rec, band=False)
    # requests the distributor itself would admit (real BatteryManager._get_bounds) although they lie
    # inside the pool-advertised exclusion zone: same oracle, separate bucket
    rec.count("enforced_bounds_observed")
    for power in distmon.band_requests(case):
        rec.bucket("enforced-band-request")
        rec.count("band_requests")
        _judge(dict(case, power=power, power_kind="enforced-band"), rec, band=True)


def _manager_tier(case: dict[str, Any], rec: Any) -> None:
    """The set_power calls the real BatteryManager issues for this data (its own exponent 1.0) obey the same bounds."""
    from frequenz.sdk.microgrid._power_distributing.result import Success

    import copy

    distmon.install()
    distmon._stage.clear()  # noqa: SLF001
    plain = {k: v for k, v in case.items() if k not in ("mgr_outcomes", "mgr_timeout", "mgr_latency")}
    rnd = c01.manager_round(plain)
    stages = copy.deepcopy(distmon._stage)  # noqa: SLF001  (stage record of the manager's own algorithm call)
    if isinstance(rnd.get("result"), Success):
        rec.bucket("manager-level")
        rec.count("manager_set_power_calls", len(rnd["calls"]))
        dist = {int(c["id"]): float(c["watts"]) for c in rnd["calls"]}
        _judge(dict(case, exp=1.0), rec, band=True, dist=dist, stages=stages)
    _derated_followup(case, plain, rec)
    # the admission gate: a request strictly inside the exclusion zone the pool advertises is either refused, or - if
    # the manager does take it - what it commands still has to respect every bound
    _, a_el, a_eu, _ = batdata.advertised(case)
    side = a_eu if case["power"] > 0 else a_el
    if abs(side) > 2e-3:
        inside = side * (0.35 + 0.5 * ((abs(case["power"]) * 0.6180339887) % 1.0))
        for adjust in (True, False):
            probe = dict(plain, power=inside, mgr_adjust=adjust, power_kind="inside-advertised-exclusion-zone")
            distmon._stage.clear()  # noqa: SLF001
            r2 = c01.manager_round(probe)
            st2 = copy.deepcopy(distmon._stage)  # noqa: SLF001
            rec.count("gate_probes_inside_the_exclusion_zone")
            if isinstance(r2.get("result"), Success) and r2.get("calls"):
                rec.bucket("manager-took-a-request-inside-the-advertised-exclusion-zone")
                d2 = {int(c["id"]): float(c["watts"]) for c in r2["calls"]}
                _judge(dict(probe, exp=1.0), rec, band=True, dist=d2, stages=st2)


def _derated_followup(case: dict[str, Any], plain: dict[str, Any], rec: Any) -> None:
    """A second request after one inverter has reported narrower bounds (nothing else was sent in between, and that
    message is stamped before the newest battery message): what is commanded obeys the bounds as they are now."""
    import copy

    from frequenz.sdk.microgrid._power_distributing.result import Success

    from ..vloop import LoopMonitor, run_virtual
    from . import c15

    g = int(abs(case["power"])) % len(case["groups"])
    inv = case["groups"][g]["invs"][0]
    factor = 0.3
    if abs(inv["el"]) > abs(inv["il"]) * factor or abs(inv["eu"]) > abs(inv["iu"]) * factor:
        return  # the derated inverter would report an exclusion bound beyond its inclusion bound: inconsistent data
    trial = copy.deepcopy(case)
    t = trial["groups"][g]["invs"][0]
    t["il"], t["iu"] = t["il"] * factor, t["iu"] * factor
    if not batdata.consistent(trial):
        return  # (e.g. the group could no longer reach its own minimum power)
    mcase = dict(plain, exp=1.0, kind="battery", latency=0.0, followup=True, adjust=True, timeout=5.0,
                 derate={"g": g, "j": 0, "factor": factor})
    for k in ("lat_vec", "reuse_request", "unusable", "bystander", "bat_concurrent"):
        mcase.pop(k, None)
    n = sum(len(x["invs"]) for x in case["groups"])
    out: dict[str, Any] = {"rounds": []}
    distmon._stage.clear()  # noqa: SLF001
    run_virtual(lambda: c15._battery_run(mcase, ["ok"] * n, out), monitor=LoopMonitor())  # noqa: SLF001
    if len(out["rounds"]) < 2 or not isinstance(out["rounds"][1].get("result"), Success) or not out["rounds"][1]["calls"]:
        return
    rec.bucket("manager-level:request-after-an-inverter-reported-narrower-bounds")
    derated = copy.deepcopy(case)
    d = derated["groups"][g]["invs"][0]
    d["il"], d["iu"] = d["il"] * factor, d["iu"] * factor
    dist = {int(c["id"]): float(c["watts"]) for c in out["rounds"][1]["calls"]}
    _judge(dict(derated, exp=1.0, power_kind="after-derating"), rec, band=True, dist=dist, stages=copy.deepcopy(distmon._stage))  # noqa: SLF001


def _judge(case: dict[str, Any], rec: Any, band: bool, dist: dict[int, float] | None = None,
           stages: dict[str, Any] | None = None) -> None:
    if case.get("mgr") and not band:
        _manager_tier(case, rec)
    f = c01.features(case, rec) if not band else {"multi": False, "zero_headroom_with_min": False}
    if f["zero_headroom_with_min"]:
        rec.bucket("zero-headroom-with-min-power")
    if dist is not None:
        out = {"distribution": dist, "remaining": 0.0, "stages": stages or {}}
    else:
        out = distmon.run(case)
    rec.count("contract_public", 1 if "public" in out["stages"] else 0)
    p = case["power"]
    up = p > 0
    t = tol(p)
    via = "manager" if dist is not None else "algorithm"
    dist = out["distribution"]
    rep = distmon.stage_report(case, out)
    rep["via"] = via
    if rep.get("excl_hook_mismatch"):
        rec.violation("split-stage-works-with-an-exclusion-bound-that-is-not-the-inverter's-own",
                      {"power": p, "mismatch": rep["excl_hook_mismatch"], "via": via, "exp": case["exp"]})
    if "excl_hook_mismatch" in rep:
        rec.count("inverter_exclusion_hook_checks")
    any_excl = False
    any_nonzero = False
    for g, grp in enumerate(case["groups"]):
        m = batdata.group_model(grp)
        total = 0.0
        for j, inv in enumerate(grp["invs"]):
            iid = batdata.inv_id(g, j)
            v = dist.get(iid, 0.0)
            total += v
            if (inv["eu"] if up else -inv["el"]) > 0:
                any_excl = True
            if abs(v) <= 1e-9:
                continue
            any_nonzero = True
            rec.count("inverter_setpoints_checked")
            if abs(v - (inv["iu"] if up else inv["il"])) <= t:
                rec.bucket("setpoint-on-incl-bound")
            if (inv["eu"] if up else -inv["el"]) > 0 and abs(v - (inv["eu"] if up else inv["el"])) <= t:
                rec.bucket("setpoint-on-excl-bound")
            w = {"power": p, "group": g, "inverter": iid, "set_point": v, "inverter_bounds": inv,
                 "group_total_so_far": total, "distribution": dist, "stages": rep, "exp": case["exp"], "band": band}
            if not (inv["il"] - t <= v <= inv["iu"] + t):
                rec.violation("inverter-outside-inclusion", w)
            elif inv["el"] + t < v < inv["eu"] - t:
                rec.violation("inverter-inside-exclusion", w)
        if (m["bat_eu"] if up else -m["bat_el"]) > 0:
            any_excl = True
        headroom = m["headroom_up"] if up else m["headroom_dn"]
        wg = {"power": p, "group": g, "group_total": total, "headroom": headroom, "exp": case["exp"], "band": band,
              "battery_bounds": [m["bat_il"], m["bat_el"], m["bat_eu"], m["bat_iu"]],
              "min_power": m["min_up"] if up else m["min_dn"], "n_inverters": len(grp["invs"]),
              "distribution": dist, "stages": rep,
              "set_key": ",".join(str(batdata.inv_id(g, j)) for j in range(len(grp["invs"])))}
        rec.count("group_totals_checked")
        if headroom <= 0.0 and abs(total) > 1e-9:
            rec.violation("no-headroom-group-commanded", wg)
            continue
        if abs(total) <= 1e-9:
            continue
        if not (m["bat_il"] - t <= total <= m["bat_iu"] + t):
            rec.violation("group-outside-battery-inclusion", wg)
        elif m["bat_el"] + t < total < m["bat_eu"] - t:
            rec.violation("group-inside-battery-exclusion", wg)
    if any_excl:
        rec.bucket("nonzero-exclusion")
    if band:
        return
    rec.nontrivial(any_nonzero and (any_excl or f["multi"] or f["zero_headroom_with_min"]))
    rec.observed({"set_points": dist})


# ----------------------------------------------------------------- known-finding predicates


def _f_s3_total_in_excl(case: dict[str, Any], v: dict[str, Any]) -> bool:
    """S3: the split of a multi-inverter set could not place the whole allocation (what was left
    was below the next inverter's exclusion bound), so the group's total dropped below the
    allocation it was given (which itself was >= min power) into the battery exclusion zone."""
    if v["kind"] != "group-inside-battery-exclusion":
        return False
    d = v["detail"]
    if d["n_inverters"] < 2:
        return False
    st = d["stages"]
    if "s3_err_by_set" not in st:
        return None  # type: ignore[return-value]  (the split stage could not be hooked on this tree: undecidable)
    e = st.get("s3_err_by_set", {}).get(d["set_key"])
    if e is None:
        return False
    t = tol(d["power"])
    if not e < -t:
        return False  # the split did not lose anything for this set
    alloc = abs(d["group_total"]) - e  # what the set was allocated before the split
    return alloc >= d["min_power"] - t  # the allocation itself respected the min power


FINDINGS = {
    "s3-multi-inverter-split-leaves-group-total-inside-battery-exclusion-zone": _f_s3_total_in_excl,
}

LEVEL_NOTE += ' Rounds 13-14: manager tier also after an inverter reported narrower bounds (message stamped before the newest battery message).'
