"""C06 — every formula sample is computed from inputs of a single timestamp.

Monitor: output receiver of real engines (FormulaEngine, engine-of-engines, FormulaEngine3Phase).
Input stream i carries at index k the value (k+1)*B^i (exact in float), the formula is the sum of
all streams, so every output value decodes to the exact index used from each stream.
Delivery schedules (interleaving, bursts, lags, reader attach point) are generated and enforced at
existing suspension points only (channel sends and loop yields).
"""

from __future__ import annotations

import asyncio
from datetime import timedelta
from typing import Any

from .. import formula as fm
from ..vloop import LoopMonitor, run_virtual

ID = "C06"
LEVEL = "exploration"
TECHNIQUE = ("runtime monitor: unique-id value encoding of every input sample, decoded from the outputs of real "
             "engines under generated delivery interleavings; oracle = single-timestamp provenance, consecutive "
             "timestamps from the alignment point, bounded progress at quiescence")
LEVEL_TEXT = ("held on N generated delivery schedules (1-4 streams, per-stream first index 0-5, random interleavings "
              "with bursts/lags bounded by the receiver capacity, reader attached before/during/after start-up, second "
              "late reader) for flat engines, engines of engines and 3-phase engines. Schedule exploration by delays at "
              "existing suspension points; the ready queue is never permuted.")
LEVEL_NOTE = ("per-stream order preserved; backlog of every stream kept below the receiver capacity (50) by the "
              "driver; 3-phase engines are driven with per-phase streams that start at the same or at different "
              "timestamps"
              " Build phase: 3-phase engines whose phases begin at different timestamps are judged like all others; receivers of capacity 200 with streams beginning 51-120 samples apart; a fallback-term tier (C19's driver).")
RULE = ("seeded schedules: list of (stream, burst, yields) steps over N=15..60 indices; kinds flat / composed / 3phase. "
        "distinct = canonical schedule JSON; non-trivial = >=2 streams and >=10 outputs decoded")
B = 1000
REQUIRED_BUCKETS = ["stream-begins-more-than-50-samples-after-another", "3phase-phases-begin-at-different-timestamps", "kind:flat", "kind:composed", "kind:3phase", "kind:fallback-term", "different-first-timestamps", "reader-late",
                    "reader-before-data", "burst>=20", "second-reader", "lagging-stream>=20",
                    "stream-seconds-behind-the-others", "streams-stamped-in-different-time-zones", "sub-second-input-step",
                    "streams-begin-whole-days-apart", "stream-without-samples-for-some-timestamps-mid-run", "input-stream-closed-while-the-others-go-on"]
REQUIRED_COUNTERS = ["outputs_decoded", "schedules_run"]
ASSUMPTIONS = ["all streams carry one sample per index (missing values are C13/C19)"]


def budget(tier: str) -> dict[str, Any]:
    if tier == "quick":
        return {"shards": 8, "cases": 2400}
    return {"shards": 32, "cases": 6000, "hashseeds": [0, 1, 2, 3]}


def gen(rng: Any, tier: str, i: int) -> Any:
    if rng.random() < 0.08:
        # an input term with a fallback source (the SDK default for battery / PV / consumer / producer power): the
        # timeline must stay gap-free while the term switches sources; driver and oracle are those of C19 (tier A)
        from . import c19

        case = c19.gen(rng, tier, i)
        while case.get("tier") == "B":
            case = c19.gen(rng, tier, i)
        case["kind"] = "fallback-term"
        return case
    kind = rng.choice(["flat", "flat", "composed", "3phase"])
    if kind == "flat":
        n = rng.randint(1, 4)
        groups = [list(range(n))]
    elif kind == "composed":
        n = rng.randint(2, 4)
        cut = rng.randint(1, n - 1)
        groups = [list(range(cut)), list(range(cut, n))]
    else:
        per = rng.choice([1, 1, 2])
        n = 3 * per
        groups = [list(range(p * per, (p + 1) * per)) for p in range(3)]
    first = [rng.randint(0, 5) for _ in range(n)]
    if kind == "3phase":
        # all phases are fed by one resampler: same first timestamp per phase group
        if rng.random() < 0.6:  # (otherwise the phases' own alignment points differ as well)
            f0 = [rng.randint(0, 5) for _ in range(per)]
            m = max(f0)
            first = []
            for p in range(3):
                fp = [rng.randint(0, m) for _ in range(per)]
                fp[rng.randrange(per)] = m  # every phase's alignment point is m
                first += fp
    N = rng.randint(15, 60)
    # the input step (sampling period of the streams): 1 s, sub-second, or so long that start offsets are whole days
    step = rng.choice([1.0, 1.0, 1.0, 0.2, 0.25, 3600.0, 21600.0])
    if step >= 3600.0 and kind != "3phase" and n >= 2:
        N = max(N, 40)
        far = int(86400 / step)
        first = [rng.choice([0, far, far, rng.randint(0, 5)]) for _ in range(n)]
    rx_limit = 50
    if kind == "flat" and n >= 2 and step == 1.0 and rng.random() < 0.15:
        # input receivers with a larger capacity: a stream may begin far more than 50 samples after the others
        rx_limit = 200
        first = [rng.choice([0, 0, rng.randint(51, 120), rng.randint(0, 5)]) for _ in range(n)]
        N = max(N, max(first) + 20)
    steps = []
    for _ in range(rng.randint(40, 400)):
        # (stream, burst, loop yields, seconds of virtual time that pass before the next delivery)
        steps.append([rng.randrange(n), rng.choice([1, 1, 1, 5, 20, 35]), rng.choice([0, 0, 1, 5]),
                      rng.choice([0.0] * 12 + [0.5, 6.0, 40.0])])
    hole = None
    if n >= 2 and rng.random() < 0.2 and N - max(first) >= 14:
        # one stream has no samples for a few timestamps in the middle of the run (a source that was away for a
        # moment, an engine that skipped them while it changed to its fallback): no output can be computed for those,
        # every other output is still computed from inputs of its own timestamp
        k0 = rng.randint(max(first) + 3, N - 8)
        hole = [rng.randrange(n), k0, k0 + rng.randint(0, 2)]
    close = None
    if hole is None and n >= 2 and kind == "flat" and rng.random() < 0.12 and N - max(first) >= 14:
        # one input stream ends (its channel is closed) while the others keep delivering: from then on no output can be
        # computed - in particular none is repeated
        close = [rng.randrange(n), rng.randint(max(first) + 3, N - 6)]
    return {"close": close, "hole": hole, "rx_limit": rx_limit, "step": step, "tzmix": rng.random() < 0.25, "kind": kind, "n": n, "groups": groups, "first": first, "N": N, "steps": steps,
            "reader_at": rng.choice([0, 0, 3, 10, 50]), "second_reader_at": rng.choice([None, 20, 60, 150])}


async def _drive(case: dict[str, Any], out: dict[str, Any]) -> None:
    from frequenz.channels import Broadcast
    from frequenz.quantities import Quantity

    from frequenz.sdk.timeseries import Sample
    from frequenz.sdk.timeseries.formula_engine._formula_engine import (FormulaBuilder,
                                                                        FormulaEngine3Phase)

    n, N = case["n"], case["N"]
    chans = [Broadcast(name=f"c{i}") for i in range(n)]
    cap = case.get("rx_limit", 50)
    lead_cap = cap - 5 if case["kind"] == "flat" else 45
    in_rx = [c.new_receiver(limit=cap) for c in chans]

    def engine_over(ids: list[int], name: str) -> Any:
        b = FormulaBuilder(name, Quantity)
        for j, i in enumerate(ids):
            if j:
                b.push_oper("+")
            b.push_metric(f"#{i}", in_rx[i], nones_are_zeros=False)
        return b.build()

    subs = [engine_over(g, f"sub{j}") for j, g in enumerate(case["groups"])]
    if case["kind"] == "flat":
        eng = subs[0]
    elif case["kind"] == "composed":
        eng = (subs[0] + subs[1]).build("composed")
    else:
        eng = FormulaEngine3Phase("3p", Quantity, (subs[0], subs[1], subs[2]))
    senders = [c.new_sender() for c in chans]
    from datetime import timezone as _tz

    zones = [_tz(timedelta(minutes=m)) for m in (0, 330, -210, 345)]

    def _stamp(i: int, k: int) -> Any:
        ts = fm.T0 + timedelta(seconds=k * case.get("step", 1.0))
        # the same instant, written in a different zone on every stream (aware datetimes denote instants)
        return ts.astimezone(zones[i % 4]) if case.get("tzmix") else ts

    hole = case.get("hole")

    close = case.get("close")
    closed = [False]

    def _in_hole(i: int, k: int) -> bool:
        if close is not None and i == close[0] and k >= close[1]:
            if not closed[0]:
                closed[0] = True
                asyncio.ensure_future(chans[i].close())
            return True
        return hole is not None and i == hole[0] and hole[1] <= k <= hole[2]

    nxt = list(case["first"])
    rx = None
    rx2 = None
    max_burst = 0
    max_lag = 0
    long_pauses = 0
    for step_no, (i, burst, yields, *rest) in enumerate(case["steps"] + [[j, 1000, 5] for j in range(n)] * 4):
        pause = rest[0] if rest else 0.0
        # sub-engines of composed/3-phase engines start at build time and buffer (capacity 50) towards the
        # not yet started outer engine: attach the reader before that internal backlog can overflow
        internal_full = case["kind"] != "flat" and any(nxt[j] - case["first"][j] >= 40 for j in range(n))
        if rx is None and (step_no >= case["reader_at"] or internal_full
                           or any(len(r._q) >= cap - 10 for r in in_rx)):  # noqa: SLF001
            rx = eng.new_receiver(max_size=2000)
            out["reader_attached_after_sends"] = sum(nxt) - sum(case["first"])
        if rx2 is None and case["second_reader_at"] is not None and step_no >= case["second_reader_at"] and rx is not None:
            rx2 = eng.new_receiver(max_size=2000)
        sent = 0
        for _ in range(burst):
            # capacity: never let a stream's unconsumed backlog reach the receiver limit
            # (for engines of engines the internal receivers see the lead of one stream over the slowest)
            if nxt[i] >= N or len(in_rx[i]._q) >= cap - 5 or nxt[i] - min(nxt) >= lead_cap:  # noqa: SLF001
                break
            if rx is None and case["kind"] != "flat" and nxt[i] - case["first"][i] >= 44:
                break  # (the not yet started outer engine's internal receivers hold 50 samples)
            k = nxt[i]
            if not _in_hole(i, k):
                await senders[i].send(Sample(_stamp(i, k), Quantity(float((k + 1) * B ** i))))
            nxt[i] += 1
            sent += 1
        max_burst = max(max_burst, sent)
        max_lag = max(max_lag, max(nxt) - min(nxt))
        for _ in range(yields):
            await asyncio.sleep(0)
        if pause:
            if pause >= 5.0 and max(nxt) > min(nxt):
                long_pauses += 1
            await asyncio.sleep(pause)
        if min(nxt) >= N:
            break
    if rx is None:
        rx = eng.new_receiver(max_size=2000)
    # quiescence: let the engine drain everything it can
    for _ in range(10):
        await asyncio.sleep(0.01)
        # top up streams that were blocked by the capacity rule
        for i in range(n):
            while nxt[i] < N and len(in_rx[i]._q) < cap - 5:  # noqa: SLF001
                k = nxt[i]
                if not _in_hole(i, k):
                    await senders[i].send(Sample(_stamp(i, k), Quantity(float((k + 1) * B ** i))))
                nxt[i] += 1
    await asyncio.sleep(0.05)
    out["sent_all"] = min(nxt) >= N
    for name, r in (("main", rx), ("second", rx2)):
        if r is None:
            continue
        lst = []
        while r._q:  # noqa: SLF001
            lst.append(r.consume())
        out[name] = lst
    out["max_burst"] = max_burst
    out["long_pauses"] = long_pauses
    out["max_lag"] = max_lag
    try:
        await eng._stop()  # noqa: SLF001
    except Exception:  # pylint: disable=broad-except
        pass


def _decode(v: float, ids: list[int]) -> list[int]:
    iv = round(v)
    return [iv // (B ** i) % B - 1 for i in ids]


def check(case: dict[str, Any], rec: Any) -> None:
    rec.bucket("kind:" + case["kind"])
    if case["kind"] == "fallback-term":
        from . import c19

        c19.check(case, rec)
        return
    n, N, first = case["n"], case["N"], case["first"]
    if len(set(first)) > 1:
        rec.bucket("different-first-timestamps")
    if case.get("step", 1.0) < 1.0:
        rec.bucket("sub-second-input-step")
    if case.get("step", 1.0) >= 3600.0 and max(first) - min(first) >= 4:
        rec.bucket("streams-begin-whole-days-apart")
    if case.get("rx_limit", 50) > 50 and max(first) - min(first) > 50:
        rec.bucket("stream-begins-more-than-50-samples-after-another")
    if case.get("tzmix") and n > 1:
        rec.bucket("streams-stamped-in-different-time-zones")
    out: dict[str, Any] = {}
    mon = LoopMonitor()
    run_virtual(lambda: _drive(case, out), monitor=mon)
    rec.count("schedules_run")
    if out.get("reader_attached_after_sends", 0) > 0:
        rec.bucket("reader-late")
    else:
        rec.bucket("reader-before-data")
    if out.get("max_burst", 0) >= 20:
        rec.bucket("burst>=20")
    if out.get("max_lag", 0) >= 20:
        rec.bucket("lagging-stream>=20")
    if out.get("long_pauses", 0):
        rec.bucket("stream-seconds-behind-the-others")
    phase_aligned = True
    if case["kind"] == "3phase":
        per = n // 3
        aligns = [max(first[p * per:(p + 1) * per]) for p in range(3)]
        phase_aligned = len(set(aligns)) == 1
    if case["kind"] == "3phase" and not phase_aligned:
        rec.bucket("3phase-phases-begin-at-different-timestamps")
    if not out.get("sent_all"):
        rec.harness_problem("driver could not deliver all samples (engine stalled?)")
    align = max(first)
    for name in ("main", "second"):
        if name not in out:
            continue
        if name == "second":
            rec.bucket("second-reader")
        ks = []
        bad = False
        for o in out[name]:
            T = round((o.timestamp - fm.T0).total_seconds() / case.get("step", 1.0))
            if case["kind"] == "3phase":
                vals = [o.value_p1, o.value_p2, o.value_p3]
                per = n // 3
                dec = []
                for p, v in enumerate(vals):
                    if v is None:
                        dec.append(None)
                    else:
                        dec += _decode(v.base_value, list(range(p * per, (p + 1) * per)))
            else:
                dec = None if o.value is None else _decode(o.value.base_value, list(range(n)))
            rec.count("outputs_decoded")
            w = {"reader": name, "timestamp_index": T, "decoded_input_indices": dec, "first": first, "kind": case["kind"]}
            if dec is None or any(d is None for d in dec):
                rec.violation("None-output-although-all-inputs-present", w)
                bad = True
                break
            if any(d != T for d in dec):
                rec.violation("output-mixes-inputs-of-different-timestamps", {**w, "phases_begin_together": phase_aligned})
                bad = True
                break
            ks.append(T)
        if bad:
            continue
        w2 = {"reader": name, "output_indices": ks[:80], "first": first, "N": N, "kind": case["kind"]}
        if not ks:
            if name == "main":
                rec.violation("no-output-at-quiescence", w2)
            continue
        hole = case.get("hole")
        holes = set(range(hole[1], hole[2] + 1)) if hole else set()
        if hole:
            rec.bucket("stream-without-samples-for-some-timestamps-mid-run")
            w2["stream_without_samples_for"] = sorted(holes)
        if ks != [k for k in range(ks[0], ks[-1] + 1) if k not in holes]:
            rec.violation("timestamps-skipped-repeated-or-reordered", w2)
        if name == "main" and ks[0] != align:
            rec.violation("first-output-is-not-the-alignment-point", {**w2, "alignment_point": align})
        if ks[0] < align:
            rec.violation("output-before-all-streams-available", {**w2, "alignment_point": align})
        last_expected = N - 1 if not case.get("close") else case["close"][1] - 1
        if case.get("close"):
            rec.bucket("input-stream-closed-while-the-others-go-on")
            w2["stream_closed_before_index"] = case["close"][1]
        if ks[-1] != last_expected:
            rec.violation("last-complete-round-not-emitted-at-quiescence" if ks[-1] < last_expected
                          else "output-for-a-timestamp-an-input-has-no-sample-for", w2)
        if name == "main":
            rec.nontrivial(n >= 2 and len(ks) >= 10)
            rec.observed({"first": first, "alignment_point": align, "outputs": len(ks), "first_output": ks[0],
                          "last_output": ks[-1], "max_lag": out.get("max_lag"), "max_burst": out.get("max_burst")})


FINDINGS: dict[str, Any] = {}

LEVEL_NOTE += ' Rounds 13-14: a stream without samples for some timestamps mid-run; an input stream closed while the others go on.'
