"""C17 — power inside a pool's advertised bounds is never rejected as out of bounds.

Monitor: for one generated data set, the SystemBounds computed by the real PowerBoundsCalculator
(what the pool streams) vs the Result type the real BatteryManager returns for probe requests on,
just inside and just outside every advertised bound (both adjust_power settings).
"""

from __future__ import annotations

import asyncio
from datetime import datetime, timedelta, timezone
from typing import Any

from .. import batdata, distmon, fakes
from ..vloop import run_virtual

ID = "C17"
LEVEL = "exploration"
TECHNIQUE = ("runtime monitor: differential observation of two real code paths (PowerBoundsCalculator.calculate vs "
             "BatteryManager request admission, end-to-end through a fake API) on the same generated data; oracle = "
             "membership in advertised bounds implies not OutOfBounds, and identical inclusion bounds")
LEVEL_TEXT = ("held on N generated topologies/data sets x 12+ probe powers (on, 1 W inside, 1 W outside each advertised "
              "bound, plus random interior points) x both adjust_power settings; agreement of two separately coded "
              "aggregations is observed on every probe. Exploration only.")
LEVEL_NOTE = ("complete, healthy data for all components (all batteries working); component graph and API faked; the "
              "sum of group minimum powers uses the documented definition max(battery excl, min inverter excl)"
              ' Build phase: refusals on an advertised bound are violations (exact sums on both sides since fix 5c04af0); set-points of accepted probes vs inverter exclusion zones; irregular groups, partly working groups, zero-capacity batteries, a bystander group.')
RULE = ("batdata generator (1-5 groups with 1-3 batteries behind 1-4 shared inverters) restricted to per-component "
        "ordered bounds; probes = the four advertised bounds, +-1 W around each, +-0.001 W, random interior. distinct = "
        "canonical case JSON; non-trivial = >=2 groups or a shared-inverter/shared-battery group, and at least one "
        "probe inside and one outside the advertised bounds")
REQUIRED_BUCKETS = ["battery-with-zero-capacity-in-a-shared-group", "set-points-of-an-accepted-inside-probe-judged", "battery-group-outside-the-pool-present", "group-with-one-battery-not-working",
                    "probe-inside-accepted", "probe-outside-rejected", "shared-inverters(n bat:1 inv)",
                    "shared-batteries(1 bat:n inv)", "nonzero-exclusion", "adjust_power=True", "adjust_power=False",
                    "probe-on-bound", "irregular-group(batteries with different inverter sets)",
                    "set_power-refused-by-the-api-for-a-power-inside-the-advertised-bounds",
                    "pool-tier:bounds-stream-first-accessed-after-the-statuses-are-known", "pool-tier:streamed-bounds-compared", "pool-tier:a-whole-group-of-the-pool-is-not-working"]
REQUIRED_COUNTERS = ["probes_checked", "inclusion_bounds_compared", "min_power_sums_checked"]
ASSUMPTIONS = ["fake API / graph; all components healthy"]


def budget(tier: str) -> dict[str, Any]:
    if tier == "quick":
        return {"shards": 8, "cases": 500}
    return {"shards": 32, "cases": 4000, "hashseeds": [0, 1, 2, 3]}


def gen(rng: Any, tier: str, i: int) -> Any:
    for _ in range(50):
        mode = rng.choice(["plain", "multi", "edge"])
        ng = rng.choice([1, 2, 2, 3, 4, 5])
        groups = [batdata.gen_group(rng, mode) for _ in range(ng)]
        if all(batdata.component_ok(c) for g in groups for c in g["bats"] + g["invs"]):
            irregular = (rng.random() < 0.3 and 2 <= len(groups[0]["bats"]) <= 3 and len(groups[0]["invs"]) >= 2)
            case = {"groups": groups, "pseed": rng.randrange(1 << 30), "irregular": irregular,
                    "bystander": rng.random() < 0.25, "api_refuses": rng.random() < 0.3}
            multi = [g for g, grp in enumerate(groups) if len(grp["bats"]) >= 2]
            if multi and rng.random() < 0.12:
                # a battery that reports a capacity of 0 Wh next to a healthy one (its bounds still count on both sides)
                g0 = rng.choice(multi)
                groups[g0]["bats"][rng.randrange(len(groups[g0]["bats"]))]["cap"] = 0.0
                case["zero_capacity"] = True
            if multi and not irregular and rng.random() < 0.25:
                # one battery of a group reports a state in which it does not work (relay open) while its data keeps
                # arriving: the group stays usable through its other batteries
                g = rng.choice(multi)
                case["not_working"] = [g, rng.randrange(len(groups[g]["bats"]))]
            return case
    return None


_IRR_BATS = [216, 209, 202]  # ids whose set iteration order (hash slots 0, 1, 2) is the reverse of their numeric order


def _bid(case: dict[str, Any], g: int, j: int) -> int:
    return _IRR_BATS[j] if case.get("irregular") and g == 0 else batdata.bat_id(g, j)


def _iid(case: dict[str, Any], g: int, j: int) -> int:
    return batdata.inv_id(g, j)


def _topology(case: dict[str, Any]) -> tuple[list[Any], list[Any]]:
    groups = [([_bid(case, g, j) for j in range(len(grp["bats"]))],
               [_iid(case, g, j) for j in range(len(grp["invs"]))]) for g, grp in enumerate(case["groups"])]
    if case.get("bystander"):
        groups = groups + [([990], [995])]  # one more battery group in the microgrid, not part of the pool
    comps, conns = fakes.battery_topology(groups)
    if case.get("irregular"):
        # group 0 is not a complete bipartite graph: only its first battery is connected to every inverter, the
        # others hang on the first inverter alone (they still form one group, through that shared inverter)
        bats, invs = groups[0]
        drop = {(i, b) for b in bats[1:] for i in invs[1:]}
        conns = [c for c in conns if (c.start, c.end) not in drop]
    return comps, conns


def _advertised(case: dict[str, Any], down_group: int | None = None) -> Any:
    """Run the real PowerBoundsCalculator on the case's data."""
    from frequenz.client.microgrid import ComponentMetricId as M

    from frequenz.sdk.timeseries.battery_pool._component_metrics import ComponentMetricsData
    from frequenz.sdk.timeseries.battery_pool._metric_calculator import PowerBoundsCalculator

    metrics = {}
    bats = set()
    for g, grp in enumerate(case["groups"]):
        for j, b in enumerate(grp["bats"]):
            cid = _bid(case, g, j)
            bats.add(cid)
            metrics[cid] = ComponentMetricsData(cid, batdata.TS, {
                M.POWER_INCLUSION_LOWER_BOUND: b["il"], M.POWER_EXCLUSION_LOWER_BOUND: b["el"],
                M.POWER_EXCLUSION_UPPER_BOUND: b["eu"], M.POWER_INCLUSION_UPPER_BOUND: b["iu"]})
        for j, i in enumerate(grp["invs"]):
            cid = _iid(case, g, j)
            metrics[cid] = ComponentMetricsData(cid, batdata.TS, {
                M.ACTIVE_POWER_INCLUSION_LOWER_BOUND: i["il"], M.ACTIVE_POWER_EXCLUSION_LOWER_BOUND: i["el"],
                M.ACTIVE_POWER_EXCLUSION_UPPER_BOUND: i["eu"], M.ACTIVE_POWER_INCLUSION_UPPER_BOUND: i["iu"]})
    calc = PowerBoundsCalculator(bats)
    working = set(bats)
    if case.get("not_working"):
        working.discard(_bid(case, *case["not_working"]))
    if down_group is not None:
        working -= {_bid(case, down_group, j) for j in range(len(case["groups"][down_group]["bats"]))}
    return calc.calculate(metrics, working)


async def _drive(case: dict[str, Any], probes: list[float], out: dict[str, Any]) -> None:
    from frequenz.channels import Broadcast
    from frequenz.quantities import Power

    from frequenz.sdk.microgrid._power_distributing._component_managers._battery_manager import \
        BatteryManager
    from frequenz.sdk.microgrid._power_distributing.request import Request

    groups = [([_bid(case, g, j) for j in range(len(grp["bats"]))],
               [_iid(case, g, j) for j in range(len(grp["invs"]))]) for g, grp in enumerate(case["groups"])]
    comps, conns = _topology(case)
    api = fakes.install_connection_manager(comps, conns)
    out["sb"] = _advertised(case)
    status_ch, res_ch = Broadcast(name="status"), Broadcast(name="results")
    res_rx = res_ch.new_receiver(limit=100)
    mgr = BatteryManager(status_ch.new_sender(), res_ch.new_sender(), timedelta(seconds=5))
    await mgr.start()
    now = datetime.now(timezone.utc)
    for g, grp in enumerate(case["groups"]):
        for j, b in enumerate(grp["bats"]):
            msg = batdata.mk_battery(_bid(case, g, j), b, now)
            if case.get("not_working") == [g, j]:
                import dataclasses

                from frequenz.client.microgrid import BatteryRelayState

                msg = dataclasses.replace(msg, relay_state=BatteryRelayState.OPENED)
            await api.feed(_bid(case, g, j), msg)
        for j, i in enumerate(grp["invs"]):
            await api.feed(_iid(case, g, j), batdata.mk_inverter(_iid(case, g, j), i, now))
    if case.get("bystander"):
        await api.feed(990, batdata.mk_battery(990, {"soc": 50.0, "lo": 10.0, "hi": 90.0, "cap": 5000.0, "il": -9000.0,
                                                     "el": -77.0, "eu": 77.0, "iu": 9000.0}, now))
        await api.feed(995, batdata.mk_inverter(995, {"il": -9000.0, "el": -33.0, "eu": 33.0, "iu": 9000.0}, now))
    await asyncio.sleep(0.5)
    all_bats = {b for bats, _ in groups for b in bats}
    for p in probes:
        for adj in (True, False):
            req = Request(power=Power.from_watts(p), component_ids=set(all_bats), adjust_power=adj)
            distmon._stage.clear()  # noqa: SLF001
            api.calls.clear()
            await mgr.distribute_power(req)
            res = res_rx.consume() if res_rx._q else None  # noqa: SLF001
            out["results"].append((p, adj, res))
            out["calls"].append([(c["id"], c["watts"]) for c in api.calls])
            out["hook"].append([] if case.get("irregular") else
                               distmon.excl_hook_mismatch(case, distmon._stage.get("multi_in"), p > 0))  # noqa: SLF001
    if case.get("api_refuses") and out.get("inside_probe") is not None:
        # the microgrid API answers the set_power calls of one more request - for a power inside the advertised bounds -
        # with OUT_OF_RANGE: a failed command (the result says which), not a request "out of bounds"
        for _, invs in groups:
            for i in invs:
                api.outcome[i] = "range"
        p = out["inside_probe"]
        req = Request(power=Power.from_watts(p), component_ids=set(all_bats), adjust_power=bool(case["pseed"] % 2))
        distmon._stage.clear()  # noqa: SLF001
        api.calls.clear()
        await mgr.distribute_power(req)
        res = res_rx.consume() if res_rx._q else None  # noqa: SLF001
        out["results"].append((p, bool(case["pseed"] % 2), res))
        out["calls"].append([])  # (nothing was accepted: no set-points to judge)
        out["hook"].append([])
        out["api_refused"] = sum(1 for c in api.calls if c["outcome"] == "range")
    await mgr.stop()


async def _drive_pool(case: dict[str, Any], out: dict[str, Any]) -> None:
    """What the real BatteryPool streams as its power bounds when the stream is first asked for *after* the battery
    statuses are known (one battery of the pool is not working, its data keeps arriving)."""
    from unittest.mock import MagicMock

    from frequenz.channels import Broadcast

    from frequenz.sdk._internal._channels import ChannelRegistry
    from frequenz.sdk.microgrid._power_distributing._component_status import ComponentPoolStatus
    from frequenz.sdk.timeseries.battery_pool import BatteryPool
    from frequenz.sdk.timeseries.battery_pool._battery_pool_reference_store import BatteryPoolReferenceStore

    comps, conns = _topology(case)
    api = fakes.install_connection_manager(comps, conns)
    ids = {_bid(case, g, j) for g, grp in enumerate(case["groups"]) for j in range(len(grp["bats"]))}
    working = set(ids)
    if case.get("not_working"):
        working.discard(_bid(case, *case["not_working"]))
    down = out.get("down_group")
    if down is not None:
        # no battery of this group is working (their data keeps arriving)
        working -= {_bid(case, down, j) for j in range(len(case["groups"][down]["bats"]))}
    status_ch = Broadcast(name="battery-status", resend_latest=True)
    store = BatteryPoolReferenceStore(
        channel_registry=ChannelRegistry(name="vf"), resampler_subscription_sender=Broadcast(name="rs").new_sender(),
        batteries_status_receiver=status_ch.new_receiver(limit=1), power_manager_requests_sender=Broadcast(name="pm").new_sender(),
        power_manager_bounds_subscription_sender=Broadcast(name="pb").new_sender(),
        power_distribution_results_fetcher=MagicMock(), min_update_interval=timedelta(seconds=0.2), batteries_id=set(ids))
    pool = BatteryPool(pool_ref_store=store, name="vf", priority=0, set_operating_point=False)
    early = bool(case["pseed"] % 3 == 0)
    rx = pool._system_power_bounds.new_receiver(limit=100) if early else None  # noqa: SLF001
    await status_ch.new_sender().send(ComponentPoolStatus(working=set(working), uncertain=set()))
    await asyncio.sleep(0.3)
    if rx is None:
        rx = pool._system_power_bounds.new_receiver(limit=100)  # noqa: SLF001  (first access: statuses have settled)
    for k in range(4):
        now = datetime.now(timezone.utc)
        for g, grp in enumerate(case["groups"]):
            for j, b in enumerate(grp["bats"]):
                await api.feed(_bid(case, g, j), batdata.mk_battery(_bid(case, g, j), b, now))
            for j, i in enumerate(grp["invs"]):
                await api.feed(_iid(case, g, j), batdata.mk_inverter(_iid(case, g, j), i, now))
        await asyncio.sleep(0.5)
    last = None
    while rx._q:  # noqa: SLF001
        last = rx.consume()
    out["pool_bounds"] = last
    out["first_access_after_status"] = not early
    await store.stop()


def _pool_tier(case: dict[str, Any], sb: Any, rec: Any) -> None:
    out: dict[str, Any] = {}
    if len(case["groups"]) >= 2 and case["pseed"] % 2:
        out["down_group"] = case["pseed"] % len(case["groups"])
        sb = _advertised(case, out["down_group"])
        rec.bucket("pool-tier:a-whole-group-of-the-pool-is-not-working")
        if sb.inclusion_bounds is None or sb.exclusion_bounds is None:
            return
    run_virtual(lambda: _drive_pool(case, out))
    rec.bucket("pool-tier:bounds-stream" + ("-first-accessed-after-the-statuses-are-known" if out.get("first_access_after_status") else ""))
    got = out.get("pool_bounds")
    rec.count("pool_bounds_compared")
    if got is None or got.inclusion_bounds is None or got.exclusion_bounds is None:
        # nothing advertised: C17 (powers inside the advertised bounds) says nothing about this run
        rec.count("pool-tier:no-bounds-streamed")
        return
    rec.bucket("pool-tier:streamed-bounds-compared")
    a = [sb.inclusion_bounds.lower.as_watts(), sb.exclusion_bounds.lower.as_watts(), sb.exclusion_bounds.upper.as_watts(),
         sb.inclusion_bounds.upper.as_watts()]
    b = [got.inclusion_bounds.lower.as_watts(), got.exclusion_bounds.lower.as_watts(), got.exclusion_bounds.upper.as_watts(),
         got.inclusion_bounds.upper.as_watts()]
    if any(abs(x - y) > 1e-9 * max(1.0, abs(x)) for x, y in zip(a, b)):
        rec.violation("pool-streams-bounds-that-are-not-those-of-its-working-batteries",
                      {"streamed": b, "bounds_of_the_working_batteries": a, "not_working": case["not_working"],
                       "first_access_after_status": out.get("first_access_after_status")})


def check(case: dict[str, Any], rec: Any) -> None:
    import random

    from frequenz.quantities import Power

    from frequenz.sdk.microgrid._power_distributing.result import Error, OutOfBounds

    # advertised bounds are needed to choose the probes: compute them once up-front (needs the graph)
    comps, conns = _topology(case)
    fakes.install_connection_manager(comps, conns)
    sb = _advertised(case)
    if case.get("irregular"):
        rec.bucket("irregular-group(batteries with different inverter sets)")
    if case.get("not_working"):
        rec.bucket("group-with-one-battery-not-working")
    if case.get("bystander"):
        rec.bucket("battery-group-outside-the-pool-present")
    if (case.get("not_working") or (len(case["groups"]) >= 2 and case["pseed"] % 4 == 1)) and not case.get("bystander") \
            and not case.get("irregular") and sb.inclusion_bounds is not None and sb.exclusion_bounds is not None:
        _pool_tier(case, sb, rec)
        fakes.install_connection_manager(comps, conns)
    if case.get("zero_capacity"):
        rec.bucket("battery-with-zero-capacity-in-a-shared-group")
    if sb.inclusion_bounds is None or sb.exclusion_bounds is None:
        rec.violation("no-bounds-advertised-for-complete-data", {"sb": repr(sb)})
        return
    il, iu = sb.inclusion_bounds.lower.as_watts(), sb.inclusion_bounds.upper.as_watts()
    el, eu = sb.exclusion_bounds.lower.as_watts(), sb.exclusion_bounds.upper.as_watts()
    pr = random.Random(case["pseed"])
    probes = {il, iu, el, eu}
    for b in (il, iu, el, eu):
        probes |= {b + 1, b - 1, b + 0.001, b - 0.001}
    probes |= {pr.uniform(il - 10, iu + 10) for _ in range(3)}
    probes = sorted(p for p in probes if abs(p) > 1e-9)
    if any(len(g["bats"]) > 1 and len(g["invs"]) == 1 for g in case["groups"]):
        rec.bucket("shared-inverters(n bat:1 inv)")
    if any(len(g["invs"]) > 1 for g in case["groups"]):
        rec.bucket("shared-batteries(1 bat:n inv)")
    if el < 0 or eu > 0:
        rec.bucket("nonzero-exclusion")

    # advertised exclusion bound >= sum of the groups' minimum powers (documented definition)
    ms = [batdata.group_model(g) for g in case["groups"]]
    min_up, min_dn = sum(m["min_up"] for m in ms), sum(m["min_dn"] for m in ms)
    rec.count("min_power_sums_checked")
    if case.get("irregular"):
        pass  # (the harness model of a group's minimum power assumes every inverter serves every battery)
    elif eu < min_up - 1e-9 or -el < min_dn - 1e-9:
        rec.violation("advertised-exclusion-below-sum-of-group-min-powers",
                      {"advertised_exclusion": [el, eu], "sum_min_power_consume": min_up, "sum_min_power_supply": min_dn})

    out: dict[str, Any] = {"results": [], "hook": [], "calls": []}
    if case.get("api_refuses"):
        from frequenz.quantities import Power as _P

        ins = [p for p in probes if (_P.from_watts(p) in sb) or (il <= p <= iu and (p <= el or p >= eu))]
        out["inside_probe"] = ins[len(ins) // 2] if ins else None
    distmon.install()
    run_virtual(lambda: _drive(case, probes, out))
    for (p, adj, _res), bad in zip(out["results"], out["hook"]):
        rec.count("inverter_exclusion_hook_checks")
        if bad:
            # "... so it can be distributed without entering any exclusion zone": the distributor must work with each
            # inverter's own exclusion bound (hooked argument of the split stage)
            rec.violation("distribution-works-with-an-exclusion-bound-that-is-not-the-inverter's-own",
                          {"probe": p, "adjust_power": adj, "mismatch": bad})
            break
    # "... so it can be distributed without entering any exclusion zone": no set-point of an accepted probe lies
    # strictly inside the commanded inverter's own exclusion zone
    inv_excl = {_iid(case, g, j): (i["el"], i["eu"]) for g, grp in enumerate(case["groups"]) for j, i in enumerate(grp["invs"])}
    in_c01_domain = batdata.consistent(case) and not case.get("irregular")  # (group minimum power <= group inclusion bound)
    for (p, adj, res), calls in zip(out["results"], out["calls"]):
        if isinstance(res, (OutOfBounds, Error)) or res is None or not in_c01_domain:
            continue
        if not ((Power.from_watts(p) in sb) or (il <= p <= iu and (p <= el or p >= eu))):
            continue
        rec.bucket("set-points-of-an-accepted-inside-probe-judged")
        rec.count("set_points_checked", len(calls))
        bad_sp = [(i, w_) for i, w_ in calls if i in inv_excl and abs(w_) > 1e-9
                  and inv_excl[i][0] + 1e-9 < w_ < inv_excl[i][1] - 1e-9]
        if bad_sp:
            rec.violation("accepted-power-distributed-into-an-inverter-exclusion-zone",
                          {"probe": p, "adjust_power": adj, "set_points": calls,
                           "inside": [{"inverter": i, "watts": w_, "exclusion": list(inv_excl[i])} for i, w_ in bad_sp]})
            break
    if out.get("api_refused"):
        rec.bucket("set_power-refused-by-the-api-for-a-power-inside-the-advertised-bounds")
    n_in = n_out = 0
    for p, adj, res in out["results"]:
        rec.count("probes_checked")
        rec.bucket(f"adjust_power={adj}")
        inside = (Power.from_watts(p) in sb) or (il <= p <= iu and (p <= el or p >= eu))
        in_incl = il <= p <= iu
        if any(abs(p - b) < 1e-12 for b in (il, iu, el, eu)):
            rec.bucket("probe-on-bound")
        w = {"probe": p, "adjust_power": adj, "advertised": [il, el, eu, iu], "result": repr(res)[:400]}
        if res is None or isinstance(res, Error):
            rec.violation("no-result-or-error-for-probe", w)
            continue
        if isinstance(res, OutOfBounds):
            rec.count("inclusion_bounds_compared")
            b = res.bounds
            if abs(b.inclusion_lower - il) > 1e-9 or abs(b.inclusion_upper - iu) > 1e-9:
                rec.violation("advertised-and-enforced-inclusion-bounds-differ",
                              {**w, "enforced_inclusion": [b.inclusion_lower, b.inclusion_upper]})
        if inside:
            n_in += 1
            if isinstance(res, OutOfBounds):
                # The two aggregations add the same numbers in different orders, so a bound can differ in
                # the last ulp; a probe exactly on such a bound falls into that sliver: float noise, counted.
                b = res.bounds
                sliver = False
                for adv, enf in ((il, b.inclusion_lower), (iu, b.inclusion_upper), (el, b.exclusion_lower),
                                 (eu, b.exclusion_upper)):
                    tau = 1e-9 * max(1.0, abs(adv))
                    if adv != enf and abs(adv - enf) <= tau and abs(p - adv) <= tau:
                        sliver = True
                if sliver:
                    # the quantifier names the powers *on* each advertised bound: a bound that the distributor
                    # computes one ulp away from the advertised one rejects exactly those
                    rec.violation("rejected-on-an-advertised-bound(enforced bound differs in the last ulp)",
                                  {**w, "enforced": [b.inclusion_lower, b.exclusion_lower, b.exclusion_upper, b.inclusion_upper]})
                else:
                    rec.violation("rejected-inside-advertised-bounds", w)
            else:
                rec.bucket("probe-inside-accepted")
        else:
            n_out += 1
            if isinstance(res, OutOfBounds):
                rec.bucket("probe-outside-rejected")
            elif not adj and not in_incl:
                # identical inclusion bounds: without adjustment a power beyond them is out of bounds
                rec.violation("accepted-outside-advertised-inclusion-bounds", w)
    rec.nontrivial((len(case["groups"]) >= 2 or any(len(g["bats"]) > 1 or len(g["invs"]) > 1 for g in case["groups"]))
                   and n_in > 0 and n_out > 0)
    rec.observed({"advertised": [il, el, eu, iu], "probes": len(probes)})


FINDINGS: dict[str, Any] = {}

LEVEL_NOTE += ' Rounds 13-14: set_power refused by the API for an inside power; pool tier through the real BatteryPool bounds stream.'
