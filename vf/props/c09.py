"""C09 — ring buffer / moving window behaves as a sliding time-indexed map.

Monitor: return values / exceptions of the real OrderedRingBuffer (update, count_valid,
count_covered, gaps, oldest/newest_timestamp, window) after every update of a generated history,
and of MovingWindow.at / window / __getitem__ fed through its channel in virtual time.
Oracle: dict reference model slot -> value|MISSING + newest; every written value is unique, so a
returned number identifies the slot it came from (evicted / unwritten data is detected).
"""

from __future__ import annotations

import asyncio
import math
import random
from datetime import datetime, timedelta, timezone
from fractions import Fraction as F
from typing import Any

from ..vloop import run_virtual

ID = "C09"
LEVEL = "exploration"
TECHNIQUE = ("runtime monitor: model-based checking of the real OrderedRingBuffer / MovingWindow against a dict "
             "reference after every update of generated histories; unique value per write identifies the slot a "
             "returned number came from; structural invariant of the gap list checked at every quiescent point")
LEVEL_TEXT = ("held on N generated histories (capacity 1-8, periods 0.5/1/2/60 s, on/off-grid alignment, list and "
              "numpy(np.empty) containers, in-order / out-of-order / too-old / beyond-capacity jumps / off-grid by "
              "0.3, 0.49, 0.5 period / None and NaN values) with ~14 queries after each update (aligned, unaligned and "
              "closer-than-one-period datetimes; negative, None and out-of-range indices; single-slot reads).")
LEVEL_NOTE = ("unaligned datetime queries: any of floor/ceil rounding of each end is accepted for *which* slots, the "
              "content must be the model's and the length at most ceil(span)+1; reference slot = round-half-even"
              ' Build phase: MovingWindow fed the whole history incl. samples older than the window; time zones / DST; deepcopy and dump/load at any point; infinite values.')
RULE = ("seeded histories of 1-40 updates x queries; distinct = canonical history JSON; non-trivial = >=5 accepted "
        "updates and (a gap or an eviction or an out-of-order update occurred)")
REQUIRED_BUCKETS = ["infinite-value-written", "moving-window-fed-a-sample-older-than-its-window", "container:list", "container:numpy", "update-rejected-too-old", "update-out-of-order",
                    "jump-beyond-capacity", "off-grid-update", "alignment-point-two-thousand-years-back", "update-microseconds-off-the-half-period-point", "half-period-tie", "missing-value-written",
                    "gap-split", "eviction", "query-unaligned", "query-same-slot", "fill-value-zero", "query-index-negative",
                    "query-index-out-of-range", "at-index", "at-timestamp", "at-timestamp-unaligned", "at-gap-slot", "at-out-of-range",
                    "moving-window", "dump-load-round-trip", "timestamps-in-mixed-time-zones", "deep-copied",
                    "copied-or-reloaded-while-empty", "timestamps-in-a-daylight-saving-zone"]
REQUIRED_COUNTERS = ["updates_checked", "window_queries_checked", "at_queries_checked", "gap_invariant_checks"]
ASSUMPTIONS = ["timestamps exact to the microsecond; values unique per write"]

E = datetime(2024, 1, 1, tzinfo=timezone.utc)
MISSING = None


def budget(tier: str) -> dict[str, Any]:
    if tier == "quick":
        return {"shards": 8, "cases": 500}
    return {"shards": 32, "cases": 12000, "hashseeds": [0, 1, 2, 3]}


def gen(rng: Any, tier: str, i: int) -> Any:
    cap = rng.randint(1, 8)
    period = rng.choice([0.5, 1.0, 2.0, 60.0, 0.1, 0.2, 0.3, 0.7])  # incl. periods that are not exact binary fractions
    align_off = rng.choice([0.0, 0.0, 0.25, -7.5, 1234.0]) if rng.random() < 0.6 else 0.0
    far = rng.random() < 0.15
    # (far: an alignment point two thousand years before the data - the documentation's datetime(1, 1, 1) style: 6e10 s
    # take 36 bits before the binary point, float seconds resolve ~8 us there. The buffer is given an alignment point
    # that is an even number of periods before the harness's, i.e. the same grid with the same slot parities.)
    eps = round(rng.choice([1e-6, 2e-6, 3e-6]) / period, 9)  # one to three microseconds, in periods
    ups = []
    newest = None
    cur = rng.randint(0, 20)
    for step in range(rng.randint(1, 40)):
        r = rng.random()
        base = newest if newest is not None else cur
        if r < 0.55:
            cur = base + 1
        elif r < 0.75:
            cur = base - rng.randint(0, cap + 1)
        elif r < 0.9:
            cur = base + rng.randint(2, 2 * cap + 2)
        else:
            cur = base + rng.randint(-cap, cap)
        off = rng.choice([0, 0, 0, 0, 0.3, -0.3, 0.5, -0.5, 0.49, -0.49])
        if far and rng.random() < 0.5:
            off = rng.choice([0.5 + eps, 0.5 - eps, -0.5 + eps, -0.5 - eps])  # microseconds off the half-period point
        val: Any = float(step + 1)
        if rng.random() < 0.2:
            val = rng.choice([None, "nan"])
        elif rng.random() < 0.06:
            val = 0.0  # a valid sample whose value is zero (falsy) must be stored like any other
        elif rng.random() < 0.05:
            val = rng.choice(["inf", "-inf"])  # an infinite value is a value too (only None and NaN are missing)
        ups.append([cur + off, val])
        slot = _slot(F(cur) + F(str(off)))
        if newest is None or slot >= newest - cap + 1:
            newest = slot if newest is None else max(newest, slot)
    return {"cap": cap, "period": period, "align_off": align_off, "container": rng.choice(["list", "numpy"]),
            "updates": ups, "qseed": rng.randrange(1 << 30),
            # after this many updates the buffer is dumped to disk and the re-loaded copy is used from then on
            "reload_at": rng.choice([None, None, rng.randint(1, max(1, len(ups))), 0]),
            "reload_how": rng.choice(["dump-load", "dump-load", "deepcopy"]),
            "tz_min": rng.choice([0, 0, 0, 330, -210, 345]),
            "dst": rng.choice([None, None, None, None, ["Europe/Berlin", "2024-03-31T01:00:00"], ["Europe/Berlin", "2024-10-27T01:00:00"],
                               ["America/New_York", "2024-11-03T06:00:00"]]),
            "dst_align_in_zone": rng.random() < 0.6, "dst_all_in_zone": rng.random() < 0.5,
            "far_periods": 2 * round(rng.choice([63113904000.0, 31556952000.0, 63838540800.0]) / period / 2) if far else 0}


def _slot(t: F) -> int:
    """round-half-even of a slot-unit time."""
    fl = math.floor(t)
    rem = t - fl
    if rem < F(1, 2):
        return fl
    if rem > F(1, 2):
        return fl + 1
    return fl if fl % 2 == 0 else fl + 1


def _same(x: Any, y: Any) -> bool:
    if x is None or y is None:
        return x is y
    return (x != x and y != y) or x == y


class Model:
    def __init__(self, cap: int):
        self.cap = cap
        self.slots: dict[int, Any] = {}
        self.newest: int | None = None

    def too_old(self, slot: int) -> bool:
        return self.newest is not None and slot < self.newest - self.cap + 1

    def write(self, slot: int, val: Any) -> bool:
        evicted = False
        self.newest = slot if self.newest is None else max(self.newest, slot)
        self.slots[slot] = val
        for k in list(self.slots):
            if k < self.newest - self.cap + 1:
                del self.slots[k]
                evicted = True
        return evicted

    @property
    def valid(self) -> dict[int, float]:
        return {k: v for k, v in self.slots.items() if v is not MISSING}

    def rng_values(self, s: int, e: int) -> list[float]:
        v = self.valid
        return [v.get(k, math.nan) for k in range(s, e)] if s < e else []


def check(case: dict[str, Any], rec: Any) -> None:
    import numpy as np
    from frequenz.quantities import Quantity

    from frequenz.sdk.timeseries import Sample
    from frequenz.sdk.timeseries._ringbuffer import OrderedRingBuffer

    cap, period = case["cap"], case["period"]
    per = timedelta(seconds=period)
    align = E + timedelta(seconds=case["align_off"])  # UTC: all harness arithmetic is done on this one
    align_arg = align  # what the buffer is given (the same instant, possibly written in another zone)
    tz_min = case.get("tz_min", 0)
    zone: Any = None
    if case.get("dst"):
        # a zone with daylight saving, the history straddling a clock change: aware datetimes denote instants, the
        # wall clock they are written in must not matter
        from zoneinfo import ZoneInfo

        zname, change = case["dst"]
        zone = ZoneInfo(zname)
        align = datetime.fromisoformat(change).replace(tzinfo=timezone.utc) - 12 * per + timedelta(seconds=case["align_off"] % period)
        align_arg = align.astimezone(zone) if case.get("dst_align_in_zone", True) else align
        rec.bucket("timestamps-in-a-daylight-saving-zone")
        tz_min = 0
    if tz_min:
        # the same alignment instant written in another time zone; update / query timestamps alternate between
        # that zone and UTC (aware datetimes denote instants)
        from datetime import timezone as _tz

        align_arg = align.astimezone(_tz(timedelta(minutes=tz_min)))
        zone = _tz(timedelta(minutes=tz_min))
        rec.bucket("timestamps-in-mixed-time-zones")
    if case.get("far_periods"):
        far_align = align - case["far_periods"] * per  # (UTC arithmetic: exact)
        align_arg = far_align if align_arg.tzinfo is timezone.utc else far_align.astimezone(align_arg.tzinfo)
    rec.bucket("container:" + case["container"])
    container = [0.0] * cap if case["container"] == "list" else np.empty(cap)
    if case["container"] == "numpy":
        container[:] = -777.0  # poison: np.empty garbage made recognisable
    buf = OrderedRingBuffer(container, per, align_arg)
    model = Model(cap)
    qr = random.Random(case["qseed"])

    def ts(t: float) -> datetime:
        r = align + timedelta(microseconds=round(t * period * 1e6))
        if zone is not None and (round(t * 10) % 2 == 1 or case.get("dst_all_in_zone")):
            r = r.astimezone(zone)
        return r

    accepted: list[tuple[float, Any]] = []
    fed: list[tuple[float, Any, bool]] = []  # every update, with "rejected as older than the window"
    interesting = False
    hist = []
    for n_up, (t, val) in enumerate(case["updates"]):
        if case.get("reload_at") == n_up and case.get("reload_how") == "deepcopy":
            import copy

            buf = copy.deepcopy(buf)  # a copy taken at any point of the life cycle (also of the empty buffer)
            rec.bucket("deep-copied")
            if n_up == 0:
                rec.bucket("copied-or-reloaded-while-empty")
        elif case.get("reload_at") == n_up:
            if n_up == 0:
                rec.bucket("copied-or-reloaded-while-empty")
            # serialization round trip (timeseries/_ringbuffer/serialization.py): the loaded buffer must be the same map
            import os
            import tempfile

            from frequenz.sdk.timeseries._ringbuffer import serialization

            fd, path = tempfile.mkstemp(prefix="vf-c09-", suffix=".pkl")
            os.close(fd)
            try:
                serialization.dump(buf, path)
                loaded = serialization.load(path)
            finally:
                os.unlink(path)
            rec.bucket("dump-load-round-trip")
            if loaded is None:
                rec.violation("serialization-load-returned-None", {"history": hist[-12:]})
                return
            buf = loaded
        slot = _slot(F(str(t)))
        v = None if val is None else (float("nan") if val == "nan" else float(val))
        hist.append([t, val])
        if val in ("inf", "-inf"):
            rec.bucket("infinite-value-written")
        w0 = {"history": hist[-12:], "cap": cap, "period": period, "update": [t, val], "slot": slot}
        if case.get("far_periods"):
            rec.bucket("alignment-point-two-thousand-years-back")
            if 1e-9 < abs(abs(t - math.floor(t)) - 0.5) < 1e-4:
                rec.bucket("update-microseconds-off-the-half-period-point")
        if abs(t - round(t)) > 1e-9:
            rec.bucket("off-grid-update")
            if abs(abs(t - math.floor(t)) - 0.5) < 1e-9:
                rec.bucket("half-period-tie")
        exp_rej = model.too_old(slot)
        before = (buf.count_valid(), list(map(repr, buf.gaps)), buf.oldest_timestamp, buf.newest_timestamp)
        rejected = False
        try:
            buf.update(Sample(ts(t), None if v is None else Quantity(v)))
        except IndexError:
            rejected = True
        rec.count("updates_checked")
        if rejected != exp_rej:
            rec.violation("too-old-update-rejection-differs", {**w0, "rejected": rejected, "expected": exp_rej})
            return
        if rejected:
            rec.bucket("update-rejected-too-old")
            after = (buf.count_valid(), list(map(repr, buf.gaps)), buf.oldest_timestamp, buf.newest_timestamp)
            if after != before:
                rec.violation("rejected-update-changed-state", w0)
                return
            fed.append((t, v, True))
            continue
        accepted.append((t, v))
        fed.append((t, v, False))
        if model.newest is not None and slot < model.newest:
            rec.bucket("update-out-of-order")
            interesting = True
        if model.newest is not None and slot >= model.newest + cap:
            rec.bucket("jump-beyond-capacity")
        mv = MISSING if (v is None or v != v) else v
        if mv is MISSING:
            rec.bucket("missing-value-written")
        if model.newest is not None and mv is not MISSING:
            vb = model.valid
            win = range(model.newest - cap + 1, model.newest + 1)
            if all(k in win and k not in vb for k in (slot - 1, slot, slot + 1)):
                rec.bucket("gap-split")
        if model.write(slot, mv):
            rec.bucket("eviction")
            interesting = True
        valid = model.valid
        newest = model.newest
        assert newest is not None
        # ---- summary observables
        cv = buf.count_valid()
        if cv != len(valid):
            rec.violation("count_valid-differs", {**w0, "got": cv, "expected": len(valid)})
            return
        window_slots = set(range(newest - cap + 1, newest + 1))
        missing = window_slots - set(valid)
        gapset: set[int] = set()
        prev_end = None
        rec.count("gap_invariant_checks")
        for g in buf.gaps:
            a = (g.start - align) / per
            b = (g.end - align) / per
            if abs(a - round(a)) > 1e-9 or abs(b - round(b)) > 1e-9 or g.start > g.end:
                rec.violation("gap-not-on-grid-or-reversed", {**w0, "gap": repr(g)})
                return
            if g.start == g.end:
                rec.observe("degenerate-empty-gap-entry-in-gap-list")  # covers no slot: consistent, only untidy
            if prev_end is not None and g.start < prev_end:
                rec.violation("gap-list-not-sorted-disjoint", {**w0, "gaps": list(map(repr, buf.gaps))})
                return
            prev_end = g.end
            gapset |= set(range(round(a), round(b)))
        if gapset != missing:
            interesting = interesting or bool(missing)
            rec.violation("gaps-differ-from-slots-without-valid-value",
                          {**w0, "gaps_as_slots": sorted(gapset), "expected": sorted(missing)})
            return
        if missing:
            interesting = True
        o, nw = buf.oldest_timestamp, buf.newest_timestamp
        eo = min(valid) if valid else None
        # (compared in UTC: an inter-zone == is always False for wall-clock times inside a repeated hour, PEP 495)
        if (o is None) != (eo is None) or (o is not None and o.astimezone(timezone.utc) != ts(eo).astimezone(timezone.utc)):
            rec.violation("oldest_timestamp-differs", {**w0, "got": str(o), "expected_slot": eo})
            return
        if valid and nw.astimezone(timezone.utc) != ts(newest).astimezone(timezone.utc):
            rec.violation("newest_timestamp-differs", {**w0, "got": str(nw), "expected_slot": newest})
            return
        if not valid:
            if nw is not None or buf.count_covered() != 0:
                rec.violation("empty-buffer-reports-content", w0)
            continue
        assert eo is not None
        cc = buf.count_covered()
        if cc != newest - eo + 1:
            rec.violation("count_covered-differs", {**w0, "got": cc, "expected": newest - eo + 1})
            return
        # ---- window queries by datetime
        lo, hi = newest - cap - 1, newest + 3
        for _ in range(7):
            a, b = qr.randint(lo, hi), qr.randint(lo, hi)
            kind = qr.random()
            if kind < 0.4:
                oa = ob = 0.0
            elif kind < 0.55:
                b = a
                oa, ob = qr.choice([(-0.3, 0.3), (0.1, 0.4), (-0.4, -0.1), (0.0, 0.3)])
                rec.bucket("query-same-slot")
            else:
                oa = qr.choice([0, 0.3, -0.3, 0.5, 0.49, -0.49])
                ob = qr.choice([0, 0.3, -0.3, 0.5, 0.49, -0.49])
            qa, qb = a + oa, b + ob
            fill = qr.choice([math.nan, math.nan, -1.0, 0.0, 0.0])
            if fill == 0.0:
                rec.bucket("fill-value-zero")
            wq = {**w0, "query": [qa, qb], "fill": repr(fill), "model": sorted(valid.items())}
            try:
                res = list(buf.window(ts(qa), ts(qb), fill_value=fill))
            except Exception as e:  # pylint: disable=broad-except
                rec.violation("window-raised", {**wq, "error": f"{type(e).__name__}: {e}"[:200]})
                continue
            rec.count("window_queries_checked")
            span = qb - qa
            aligned = oa == 0 and ob == 0
            if not aligned:
                rec.bucket("query-unaligned")
            if len(res) > max(0, math.ceil(span - 1e-12)) + (0 if aligned else 1):
                rec.violation("window-returns-more-slots-than-the-query-spans", {**wq, "result": res})
                continue

            def exp_for(sa: int, sb: int) -> list[float]:
                s, e = max(sa, eo), min(sb, newest + 1)
                return [valid.get(k, fill) for k in range(s, e)] if s < e else []

            cands = [exp_for(a, b)] if aligned else [exp_for(sa, sb) for sa in {math.floor(qa), math.ceil(qa)}
                                                     for sb in {math.floor(qb), math.ceil(qb)}]
            if not any(len(c) == len(res) and all(_same(x, y) for x, y in zip(c, res)) for c in cands):
                foreign = [x for x in res if not (x != x) and x != fill and x not in valid.values()]
                rec.violation("window-content-differs-from-model" + ("-unaligned" if not aligned else ""),
                              {**wq, "result": res, "accepted": cands[:4],
                               "values_from_evicted_or_unwritten_slots": foreign})
        # ---- window queries by index
        full = [valid.get(k, math.nan) for k in range(eo, newest + 1)]
        for _ in range(4):
            i = qr.choice([None] + list(range(-cap - 2, cap + 3)))
            j = qr.choice([None] + list(range(-cap - 2, cap + 3)))
            if (i is not None and i < 0) or (j is not None and j < 0):
                rec.bucket("query-index-negative")
            if any(x is not None and abs(x) > len(full) for x in (i, j)):
                rec.bucket("query-index-out-of-range")
            try:
                res = list(buf.window(i, j))
            except Exception as e:  # pylint: disable=broad-except
                rec.violation("index-window-raised", {**w0, "query": [i, j], "error": f"{type(e).__name__}: {e}"[:200]})
                continue
            rec.count("window_queries_checked")
            exp = full[i:j]
            if len(exp) != len(res) or not all(_same(x, y) for x, y in zip(exp, res)):
                rec.violation("index-window-differs-from-model", {**w0, "query": [i, j], "result": res, "expected": exp})
    rec.nontrivial(len(accepted) >= 5 and interesting)
    rec.observed({"accepted_updates": len(accepted), "final_model": sorted(model.valid.items())[:10],
                  "newest": model.newest})
    if accepted and model.valid:
        _moving_window(case, fed, rec, align, per, align_arg, zone)


def _moving_window(case: dict[str, Any], accepted: list[Any], rec: Any, align: datetime, per: timedelta,
                   align_arg: datetime | None = None, zone: Any = None) -> None:
    """Same history through a real MovingWindow (fed via its channel); single-slot reads and slices."""
    from frequenz.channels import Broadcast
    from frequenz.quantities import Quantity

    from frequenz.sdk.timeseries import MovingWindow, Sample

    cap, period = case["cap"], case["period"]
    qr = random.Random(case["qseed"] + 1)
    rec.bucket("moving-window")

    def _z(d: datetime) -> datetime:
        return d if zone is None else d.astimezone(zone)

    async def main() -> None:
        ch = Broadcast(name="mw")
        tx = ch.new_sender()
        model = Model(cap)
        async with MovingWindow(size=per * cap, resampled_data_recv=ch.new_receiver(limit=1000),
                                input_sampling_period=per, align_to=align_arg or align) as mw:
            for t, v, too_old in accepted:
                await tx.send(Sample(_z(align + timedelta(microseconds=round(t * period * 1e6))),
                                     None if v is None else Quantity(v)))
                await asyncio.sleep(0.001)
                slot = _slot(F(str(t)))
                if too_old:
                    # a sample older than the window: rejected; the window stays what it was and keeps following its input
                    rec.bucket("moving-window-fed-a-sample-older-than-its-window")
                else:
                    model.write(slot, MISSING if (v is None or v != v) else v)
                valid = model.valid
                if not valid:
                    continue
                newest = model.newest
                assert newest is not None
                eo = min(valid)
                cc = newest - eo + 1
                w0 = {"cap": cap, "period": period, "model": sorted(valid.items()), "newest": newest,
                      "last_update": [t, v]}
                if mw.count_valid() != len(valid) or mw.count_covered() != cc:
                    rec.violation("moving-window-counts-differ", {**w0, "valid": mw.count_valid(),
                                                                  "covered": mw.count_covered()})
                    return
                for _ in range(5):
                    i = qr.randint(-cc - 2, cc + 1)
                    rec.count("at_queries_checked")
                    rec.bucket("at-index")
                    in_range = -cc <= i < cc
                    slot_i = (eo + i) if i >= 0 else (newest + 1 + i)
                    try:
                        got: Any = mw.at(i) if qr.random() < 0.5 else mw[i]
                        raised = False
                    except IndexError:
                        raised, got = True, None
                    wq = {**w0, "at": i, "got": got, "raised": raised, "slot": slot_i}
                    if not in_range:
                        rec.bucket("at-out-of-range")
                        if not raised:
                            rec.violation("at-index-out-of-range-does-not-raise", wq)
                        continue
                    if raised:
                        rec.violation("at-index-in-range-raises", wq)
                        continue
                    exp = valid.get(slot_i, math.nan)
                    if slot_i not in valid:
                        rec.bucket("at-gap-slot")
                    if not _same(exp, got):
                        rec.violation("at-index-returns-data-of-another-or-evicted-slot", {**wq, "expected": exp})
                for _ in range(4):
                    k = qr.randint(eo - 2, newest + 2)
                    key = _z(align + k * per)
                    rec.count("at_queries_checked")
                    rec.bucket("at-timestamp")
                    try:
                        got = mw.at(key) if qr.random() < 0.5 else mw[key]
                        raised = False
                    except IndexError:
                        raised, got = True, None
                    wq = {**w0, "at_slot": k, "got": got, "raised": raised}
                    if not eo <= k <= newest:
                        rec.bucket("at-out-of-range")
                        if not raised:
                            rec.violation("at-timestamp-out-of-range-does-not-raise", wq)
                        continue
                    if raised:
                        rec.violation("at-timestamp-in-range-raises", wq)
                        continue
                    exp = valid.get(k, math.nan)
                    if k not in valid:
                        rec.bucket("at-gap-slot")
                    if not _same(exp, got):
                        rec.violation("at-timestamp-returns-data-of-another-or-evicted-slot", {**wq, "expected": exp})
                # single-slot reads with timestamps off the slot grid
                for _ in range(4):
                    k = qr.randint(eo - 1, newest + 1)
                    off = qr.choice([0.3, -0.3, 0.4, -0.4, 0.49, -0.49, 0.1, -0.1])
                    key = _z(align + timedelta(microseconds=round((k + off) * period * 1e6)))
                    rec.count("at_queries_checked")
                    rec.bucket("at-timestamp-unaligned")
                    try:
                        got = mw.at(key) if qr.random() < 0.5 else mw[key]
                        raised = False
                    except IndexError:
                        raised, got = True, None
                    lo_s, hi_s = math.floor(k + off), math.ceil(k + off)
                    inside_raw = eo <= k + off <= newest
                    wq = {**w0, "at_time_in_slots": k + off, "got": got, "raised": raised}
                    if raised:
                        if inside_raw:
                            rec.violation("at-unaligned-timestamp-in-range-raises", wq)
                        continue
                    if not (eo <= lo_s <= newest or eo <= hi_s <= newest):
                        rec.violation("at-unaligned-timestamp-out-of-range-does-not-raise", wq)
                        continue
                    ok_vals = [valid.get(sl, math.nan) for sl in (lo_s, hi_s) if eo <= sl <= newest]
                    if any(sl not in valid for sl in (lo_s, hi_s) if eo <= sl <= newest):
                        rec.bucket("at-gap-slot")
                    if not any(_same(x, got) for x in ok_vals):
                        rec.violation("at-unaligned-timestamp-returns-data-of-another-or-evicted-slot",
                                      {**wq, "accepted": ok_vals})
                # slices
                a, b = qr.randint(-cc - 1, cc + 1), qr.randint(-cc - 1, cc + 1)
                full = [valid.get(k, math.nan) for k in range(eo, newest + 1)]
                res = list(mw[a:b])
                res0 = list(mw.window(a, b, fill_value=0.0))
                full0 = [valid.get(k, 0.0) for k in range(eo, newest + 1)]
                rec.count("window_queries_checked", 2)
                if len(res0) != len(full0[a:b]) or not all(_same(x, y) for x, y in zip(full0[a:b], res0)):
                    rec.violation("moving-window-window-with-fill-0-differs-from-model", {**w0, "slice": [a, b], "result": res0,
                                                                                          "expected": full0[a:b]})
                if len(res) != len(full[a:b]) or not all(_same(x, y) for x, y in zip(full[a:b], res)):
                    rec.violation("moving-window-slice-differs-from-model", {**w0, "slice": [a, b], "result": res,
                                                                             "expected": full[a:b]})

    run_virtual(main)


FINDINGS: dict[str, Any] = {}

LEVEL_NOTE += ' Rounds 13-14: alignment point two thousand years before the data, updates microseconds off the half-period point.'
