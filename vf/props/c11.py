"""C11 — distributed power = regular target + operating-point target, in bounds.

Monitor: the real PowerManagingActor in virtual time; the harness owns the proposal,
subscription, result and (stubbed pool) system-bounds channels and records every Request
and every _Report; hooked state = both resolvers' get_target_power at quiescence.
"""

from __future__ import annotations

import asyncio
from typing import Any

from .. import pm
from ..vloop import LoopMonitor, run_virtual

ID = "C11"
LEVEL = "exploration"
TECHNIQUE = ("runtime monitor: boundary recorder on the requests/report channels of the real PowerManagingActor "
             "driven by generated event histories in virtual time; oracle = request == reported regular target + "
             "reported operating-point target, within the latest inclusion bounds")
LEVEL_TEXT = ("held on N generated event histories (regular / operating-point proposals, bounds widen-shrink-shift-"
              "None, Success/PartialFailure/Error results, expiry) incl. forced histories where only one resolver's "
              "target changes in a step; every Request observed is checked. Exploration of histories.")
LEVEL_NOTE = ("battery pool stubbed at _data_pipeline.new_battery_pool (bounds channel fed by the harness); events are "
              "separated by quiescence so each request is judged against the state it was computed from; missing "
              "target counts as 0"
              ' Build phase: managers of batteries, EV chargers and solar inverters; manager created by PowerWrapper; equal priorities within and across kinds; bursts with a no-loss monitor at the algorithm boundary; NaN proposal bounds; factory tier (microgrid.new_*_pool on a real _DataPipeline).')
RULE = ("random histories of 3-40 events over 1-2 component groups, 1-3 regular and 1-2 operating-point actors with "
        "distinct priorities; plus the two documented operating-point tables as fixed cases. distinct = canonical "
        "history JSON; non-trivial = >=1 request observed after both resolvers hold a target")
REQUIRED_BUCKETS = ["factory-tier(pools from microgrid.new_*_pool)", "factory:ev_charger", "factory:pv", "factory:operating-point-pool", "proposal-with-a-NaN-bound", "regular-and-operating-point-actor-with-the-same-priority", "manager-created-by-the-power-wrapper", "proposals-issued-in-one-loop-iteration", "two-actors-with-the-same-priority", "manager-of:pv", "manager-of:ev",
                    "bounds-only-step-with-request", "only-one-target-changed", "both-targets-nonzero",
                    "expiry", "partial-failure-resend", "late-partial-failure-resend", "bounds-None", "doc-table", "request-on-bound"]
REQUIRED_COUNTERS = ["requests_checked", "reported_targets_compared", "reports_checked", "expired_kind_checks"]
ASSUMPTIONS = ["stubbed battery pool; PowerDistributor replaced by the harness reading the requests channel"]

GROUPS = [frozenset({1, 2}), frozenset({7})]

DOC_CASES = [
    {"doc": 1, "n_groups": 1, "events": [
        {"k": "bounds", "g": 0, "sys": [-3000.0, 3000.0], "excl": [0.0, 0.0]},
        {"k": "prop", "g": 0, "op": False, "src": "r3", "prio": 3, "pref": 1000.0, "lo": -4000.0, "hi": 2500.0},
        {"k": "prop", "g": 0, "op": False, "src": "r2", "prio": 2, "pref": 2500.0, "lo": None, "hi": None},
        {"k": "prop", "g": 0, "op": True, "src": "o1", "prio": 1, "pref": None, "lo": None, "hi": None},
    ], "expect_last_request": 2500.0, "expect_bounds": {"3": [-3000.0, 3000.0], "2": [-3000.0, 2500.0]}},
    {"doc": 2, "n_groups": 1, "events": [
        {"k": "bounds", "g": 0, "sys": [-3000.0, 3000.0], "excl": [0.0, 0.0]},
        {"k": "prop", "g": 0, "op": False, "src": "r3", "prio": 3, "pref": 1000.0, "lo": -4000.0, "hi": 2500.0},
        {"k": "prop", "g": 0, "op": False, "src": "r2", "prio": 2, "pref": 2500.0, "lo": None, "hi": None},
        {"k": "prop", "g": 0, "op": True, "src": "o1", "prio": 1, "pref": -1000.0, "lo": None, "hi": None},
    ], "expect_last_request": 1500.0, "expect_bounds": {"3": [-2000.0, 4000.0], "2": [-2000.0, 2500.0]}},
]


def budget(tier: str) -> dict[str, Any]:
    if tier == "quick":
        return {"shards": 8, "cases": 1000}
    return {"shards": 32, "cases": 4000, "hashseeds": [0, 1, 2, 3]}


def gen(rng: Any, tier: str, i: int) -> Any:
    if i < len(DOC_CASES):
        return DOC_CASES[i]
    if rng.random() < 0.03:
        return _gen_factory(rng)
    ng = rng.choice([1, 1, 2])
    actors = []
    prios = rng.sample(range(1, 12), 5)
    n_reg, n_op = rng.choice([1, 2, 3]), rng.choice([1, 1, 2])
    for j in range(n_reg):
        actors.append({"src": f"r{j}", "prio": prios[j], "op": False})
    for j in range(n_op):
        actors.append({"src": f"o{j}", "prio": prios[3 + j], "op": True})
    if rng.random() < 0.2:
        # an operating-point actor that has the same priority as a regular actor (the two kinds are resolved separately)
        actors[n_reg]["prio"] = actors[0]["prio"]
    if rng.random() < 0.3:
        # a second regular actor with the same priority as the first (ties are broken by source id); it subscribes
        # to the reports on its own
        actors.append({"src": "r0b", "prio": prios[0], "op": False})
    events: list[dict[str, Any]] = []
    nan_bounds = rng.random() < 0.15

    def bounds_ev(g: int) -> dict[str, Any]:
        if rng.random() < 0.08:
            return {"k": "bounds", "g": g, "sys": None, "excl": None}
        lo = -rng.choice([0.0, 100.0, 500.0, 1000.0, 3000.0])
        hi = rng.choice([0.0, 100.0, 500.0, 1000.0, 3000.0])
        ex = rng.choice([[0.0, 0.0], [0.0, 0.0], [0.0, 0.0], [-50.0, 50.0], [-100.0, 0.0]])
        return {"k": "bounds", "g": g, "sys": [lo, hi], "excl": ex}

    def prop_ev(g: int) -> dict[str, Any]:
        a = rng.choice(actors)
        pref = rng.choice([None, -2000.0, -800.0, -300.0, -50.0, 0.0, 50.0, 300.0, 800.0, 2000.0])
        lo = rng.choice([None, None, None, -1000.0, -200.0, 0.0])
        hi = rng.choice([None, None, None, 1000.0, 200.0, 0.0])
        if nan_bounds and rng.random() < 0.15:
            # a proposal whose bound is NaN (an actor computed it from missing data): whatever it does to the actors'
            # targets, the request must stay inside the system bounds
            if rng.random() < 0.5:
                lo = "nan"
            else:
                hi = "nan"
        return {"k": "prop", "g": g, "op": a["op"], "src": a["src"], "prio": a["prio"], "pref": pref, "lo": lo, "hi": hi}

    for g in range(ng):
        events.append(bounds_ev(g))
    n = rng.randint(3, 40)
    forced = rng.random() < 0.5
    for step in range(n):
        g = rng.randrange(ng)
        r = rng.random()
        if forced and step % 5 == 2:
            # proposals from both kinds, then a bounds update that changes only one resolver's target
            events.append(dict(prop_ev(g), op=False, src="r0", prio=actors[0]["prio"],
                               pref=rng.choice([300.0, 800.0, -300.0]), lo=None, hi=None))
            o = next(a for a in actors if a["op"])
            events.append(dict(prop_ev(g), op=True, src=o["src"], prio=o["prio"],
                               pref=rng.choice([50.0, -50.0, 100.0]), lo=None, hi=None))
            events.append({"k": "bounds", "g": g, "sys": [-rng.choice([100.0, 200.0, 400.0]),
                                                           rng.choice([100.0, 200.0, 400.0])], "excl": [0.0, 0.0]})
        elif r < 0.25:
            events.append(bounds_ev(g))
        elif r < 0.8:
            events.append(prop_ev(g))
        elif r < 0.92:
            # "back": the result answers the request sent `back` requests ago (results can arrive late, after
            # newer proposals or bounds have re-targeted the group)
            events.append({"k": "result", "g": g, "type": rng.choice(["success", "partial", "partial", "error"]),
                           "back": rng.choice([0, 0, 1, 2, 3])})
        else:
            events.append({"k": "advance", "dt": rng.choice([0.5, 5.0, 30.0, 59.0, 61.5, 130.0])})
    if rng.random() < 0.4:
        # proposals of several actors issued in one go (same event-loop iteration, e.g. actors woken by the same tick)
        for k in range(len(events) - 1):
            if events[k]["k"] == "prop" and events[k + 1]["k"] == "prop" and rng.random() < 0.6:
                events[k]["burst"] = True
    # the manager of batteries, of EV chargers or of solar inverters (each is wired to its own kind of pool); created
    # directly or the way the SDK does it (microgrid/_power_wrapper.py)
    return {"n_groups": ng, "events": events, "category": rng.choice(["battery", "battery", "ev", "pv"]),
            "via_wrapper": rng.random() < 0.4}


async def _drive(case: dict[str, Any], out: dict[str, Any]) -> None:
    from frequenz.channels import Broadcast
    from frequenz.client.microgrid import ComponentCategory
    from frequenz.quantities import Power

    from frequenz.sdk._internal._channels import ChannelRegistry
    from frequenz.sdk.microgrid import _data_pipeline, _power_distributing
    from frequenz.sdk.microgrid._power_managing import (PowerManagingActor, Proposal,
                                                        ReportRequest)
    from frequenz.sdk.microgrid._power_managing._base_classes import _Report
    from frequenz.sdk.timeseries._base_types import SystemBounds

    loop = asyncio.get_event_loop()
    ng = case["n_groups"]
    bounds_ch = {GROUPS[g]: Broadcast[SystemBounds](name=f"b{g}", resend_latest=True) for g in range(ng)}

    class _SPB:
        def __init__(self, cid: frozenset[int]):
            self.cid = cid

        def new_receiver(self, *a: Any, **k: Any) -> Any:
            return bounds_ch[self.cid].new_receiver()

    class FakePool:
        def __init__(self, cid: frozenset[int]):
            self._system_power_bounds = _SPB(cid)

    # a pool requested without component ids stands for all components of the site: its bounds are another stream
    ALL = frozenset({-1})
    bounds_ch[ALL] = Broadcast[SystemBounds](name="b-all", resend_latest=True)
    await bounds_ch[ALL].new_sender().send(pm.mk_sysbounds([-1e6, 1e6], [0.0, 0.0]))
    category = case.get("category", "battery")
    attr = {"battery": "new_battery_pool", "ev": "new_ev_charger_pool", "pv": "new_pv_pool"}[category]
    saved = getattr(_data_pipeline, attr)
    pool_requests = out.setdefault("pool_requests", [])

    def _new_pool(**kw: Any) -> Any:
        cid = kw.get("component_ids")
        pool_requests.append(None if cid is None else sorted(cid))
        return FakePool(ALL if cid is None else frozenset(cid))

    setattr(_data_pipeline, attr, _new_pool)
    try:
        prop_ch = Broadcast[Proposal](name="p")
        sub_ch = Broadcast[ReportRequest](name="s")
        req_ch = Broadcast[_power_distributing.Request](name="r")
        res_ch = Broadcast[_power_distributing.Result](name="res")
        reg = ChannelRegistry(name="reg")
        req_rx = req_ch.new_receiver(limit=1000)
        from frequenz.client.microgrid import InverterType

        ckw: dict[str, Any] = {"battery": {"component_category": ComponentCategory.BATTERY},
                               "ev": {"component_category": ComponentCategory.EV_CHARGER},
                               "pv": {"component_category": ComponentCategory.INVERTER,
                                      "component_type": InverterType.SOLAR}}[category]
        if case.get("via_wrapper") and category in ("battery", "pv"):
            from datetime import timedelta as _td

            from frequenz.sdk.microgrid._power_wrapper import PowerWrapper

            from .. import fakes

            # (the wrapper only asks the graph whether components of the category exist; pools are stubbed)
            comps, conns = (fakes.battery_topology([([21, 22], [101])]) if category == "battery"
                            else fakes.pv_topology([31, 32]))
            fakes.install_connection_manager(comps, conns)
            wrapper = PowerWrapper(reg, api_power_request_timeout=_td(seconds=5), **ckw)
            # the wrapper's channels: the results channel through its public fetcher, the requests channel as the one
            # Broadcast it holds besides the public ones (private attribute names are not relied on)
            results_ch = wrapper.distribution_results_fetcher()
            public = [wrapper.status_channel, wrapper.proposal_channel, wrapper.bounds_subscription_channel, results_ch]
            others = [v for v in vars(wrapper).values() if isinstance(v, Broadcast) and not any(v is c for c in public)]
            if len(others) != 1:
                from ..common import HarnessError

                raise HarnessError(f"PowerWrapper holds {len(others)} candidate request channels")
            req_rx = others[0].new_receiver(limit=1000)
            wrapper._start_power_managing_actor()  # noqa: SLF001
            actor = next(v for v in vars(wrapper).values() if isinstance(v, PowerManagingActor))
            ptx, stx = wrapper.proposal_channel.new_sender(), wrapper.bounds_subscription_channel.new_sender()
            rtx = results_ch.new_sender()
            out["via_wrapper"] = True
        else:
            actor = PowerManagingActor(prop_ch.new_receiver(limit=1000), sub_ch.new_receiver(limit=1000),
                                       req_ch.new_sender(), res_ch.new_receiver(limit=1000), reg, **ckw)
            actor.start()
            ptx, stx, rtx = prop_ch.new_sender(), sub_ch.new_sender(), res_ch.new_sender()
        # no-loss monitor at the algorithm boundary: every proposal sent reaches the resolver of its kind once
        sent_props: dict[int, Any] = {}
        seen_props: dict[int, int] = {}
        for grp_name in ("_set_power_group", "_set_op_power_group"):
            alg = getattr(actor, grp_name)

            def _wrapped(component_ids: Any, proposal: Any, *a: Any, _orig: Any = alg.calculate_target_power, **k: Any) -> Any:
                if proposal is not None:
                    seen_props[id(proposal)] = seen_props.get(id(proposal), 0) + 1
                return _orig(component_ids, proposal, *a, **k)

            alg.calculate_target_power = _wrapped
        btx = {cid: ch.new_sender() for cid, ch in bounds_ch.items()}
        await asyncio.sleep(0.001)
        # subscribe every (group, actor) so that reports flow
        report_rx: dict[tuple[int, int, str], Any] = {}
        actors = {}
        for ev in case["events"]:
            if ev["k"] == "prop":
                actors[(ev["g"], ev["prio"], ev["src"])] = ev["op"]
        sub_order = sorted(actors.items())
        import random as _random

        _random.Random(len(case["events"]) * 7919 + len(actors)).shuffle(sub_order)  # any group may subscribe last
        for (g, prio, src), op in sub_order:
            rr = ReportRequest(source_id=src, component_ids=GROUPS[g], priority=prio, set_operating_point=op)
            report_rx[(g, prio, src)] = reg.get_or_create(_Report, rr.get_channel_name()).new_receiver(limit=1000)
            await stx.send(rr)
        await asyncio.sleep(0.001)

        latest_bounds: dict[int, Any] = {}
        last_request: dict[int, Any] = {}
        req_hist: dict[int, list[Any]] = {}
        steps = out["steps"]
        for idx, ev in enumerate(case["events"]):
            if ev["k"] == "bounds":
                sb = pm.mk_sysbounds(ev["sys"], ev["excl"])
                latest_bounds[ev["g"]] = ev
                await btx[GROUPS[ev["g"]]].send(sb)
            elif ev["k"] == "prop":
                pr = pm.mk_proposal(dict(ev, t=loop.time()), cid=GROUPS[ev["g"]], op=ev["op"])
                sent_props[id(pr)] = (idx, pr)  # (kept alive: identity is the proposal's id)
                await ptx.send(pr)
                if ev.get("burst"):
                    out.setdefault("burst_T", {})[idx] = loop.time()
                    continue  # the next proposal follows in the same loop iteration
            elif ev["k"] == "result":
                req = last_request.get(ev["g"])
                if req is None:
                    continue
                hist = req_hist.get(ev["g"], [])
                back = min(ev.get("back", 0), len(hist) - 1)
                if back > 0:
                    req = hist[-1 - back]
                    out.setdefault("late_results", []).append(idx)
                z = Power.zero()
                if ev["type"] == "success":
                    res: Any = _power_distributing.Success(request=req, succeeded_power=req.power,
                                                           succeeded_components=set(req.component_ids), excess_power=z)
                elif ev["type"] == "partial":
                    res = _power_distributing.PartialFailure(request=req, succeeded_power=z, succeeded_components=set(),
                                                             failed_power=req.power,
                                                             failed_components=set(req.component_ids), excess_power=z)
                else:
                    res = _power_distributing.Error(request=req, msg="boom")
                await rtx.send(res)
            elif ev["k"] == "advance":
                await asyncio.sleep(ev["dt"])
            await asyncio.sleep(0.01)  # quiescence (virtual): the actor has handled the event completely
            reqs = []
            while True:
                try:
                    r = req_rx.consume() if req_rx._q else None  # noqa: SLF001
                except Exception:  # pylint: disable=broad-except
                    r = None
                if r is None:
                    break
                reqs.append(r)
            reports: dict[str, Any] = {}
            for (g, prio, src), rx in report_rx.items():
                while rx._q:  # noqa: SLF001
                    rep = rx.consume()
                    b = rep.bounds
                    reports[f"{g}/{prio}/{src}"] = {
                        "target": None if rep.target_power is None else rep.target_power.as_watts(),
                        "bounds": None if b is None else [b.lower.as_watts(), b.upper.as_watts()],
                        "op": actors[(g, prio, src)]}
            state = {}
            for g in range(ng):
                a = actor._set_power_group.get_target_power(GROUPS[g])  # noqa: SLF001
                b = actor._set_op_power_group.get_target_power(GROUPS[g])  # noqa: SLF001
                state[g] = {"reg": None if a is None else a.as_watts(), "op": None if b is None else b.as_watts()}
            for r in reqs:
                g = GROUPS.index(frozenset(r.component_ids))
                last_request[g] = r
                req_hist.setdefault(g, []).append(r)
            steps.append({"i": idx, "ev": ev, "state": state, "reports": reports, "T": loop.time(),
                          "requests": [{"g": GROUPS.index(frozenset(r.component_ids)), "power": r.power.as_watts()}
                                       for r in reqs],
                          "bounds": {g: latest_bounds.get(g) for g in range(ng)}})
        out["proposals_sent"] = len(sent_props)
        out["proposals_lost"] = [i for k, (i, _p) in sent_props.items() if seen_props.get(k, 0) == 0]
        out["proposals_repeated"] = [i for k, (i, _p) in sent_props.items() if seen_props.get(k, 0) > 1]
        await actor.stop()
    finally:
        setattr(_data_pipeline, attr, saved)


def _gen_factory(rng: Any) -> dict[str, Any]:
    """Pools obtained the way actors obtain them: microgrid.new_battery_pool / new_ev_charger_pool / new_pv_pool."""
    pools = []
    for _ in range(rng.randint(2, 5)):
        kind = rng.choice(["battery", "ev_charger", "pv"])
        all_ids = {"battery": [21, 22], "ev_charger": [41, 42], "pv": [31, 32]}[kind]
        pools.append({"kind": kind, "priority": rng.choice([-3, 0, 1, 7]), "name": rng.choice([None, "actor"]),
                      "op": rng.random() < 0.5, "ids": rng.choice([None, all_ids, all_ids[:1]]),
                      "watts": rng.choice([None, 0.0, 100.0, 2500.0]) if kind != "pv" else rng.choice([None, 0.0, -100.0])})
    return {"kind": "factory", "pools": pools}


async def _drive_factory(case: dict[str, Any], out: dict[str, Any]) -> None:
    from datetime import timedelta

    from frequenz.client.microgrid import (Component, ComponentCategory, Connection,
                                           InverterType)
    from frequenz.quantities import Power

    import frequenz.sdk.microgrid  # noqa: F401
    from frequenz.sdk.microgrid import _data_pipeline
    from frequenz.sdk.microgrid._power_wrapper import PowerWrapper
    from frequenz.sdk.timeseries._resampling import ResamplerConfig

    from .. import fakes

    C = ComponentCategory
    comps = [Component(1, C.GRID), Component(2, C.METER), Component(101, C.INVERTER, InverterType.BATTERY),
             Component(102, C.INVERTER, InverterType.BATTERY), Component(21, C.BATTERY), Component(22, C.BATTERY),
             Component(31, C.INVERTER, InverterType.SOLAR), Component(32, C.INVERTER, InverterType.SOLAR),
             Component(41, C.EV_CHARGER), Component(42, C.EV_CHARGER)]
    conns = [Connection(1, 2), Connection(2, 101), Connection(2, 102), Connection(101, 21), Connection(102, 22),
             Connection(2, 31), Connection(2, 32), Connection(2, 41), Connection(2, 42)]
    fakes.install_connection_manager(comps, conns)
    dp = _data_pipeline._DataPipeline(ResamplerConfig(resampling_period=timedelta(seconds=1)))  # noqa: SLF001
    saved = _data_pipeline._DATA_PIPELINE  # noqa: SLF001
    _data_pipeline._DATA_PIPELINE = dp  # noqa: SLF001
    try:
        wrappers = [v for v in vars(dp).values() if isinstance(v, PowerWrapper)]
        rxs = [w.proposal_channel.new_receiver(limit=100) for w in wrappers]
        sub_rxs = [w.bounds_subscription_channel.new_receiver(limit=100) for w in wrappers]
        for spec in case["pools"]:
            factory = getattr(_data_pipeline, f"new_{spec['kind']}_pool")
            pool = factory(priority=spec["priority"], component_ids=None if spec["ids"] is None else set(spec["ids"]),
                           name=spec["name"], set_operating_point=spec["op"])
            await asyncio.sleep(0.01)
            for rx in rxs + sub_rxs:
                while rx._q:  # noqa: SLF001  (what the wrappers' own bounds trackers sent while starting up)
                    rx.consume()
            await pool.propose_power(None if spec["watts"] is None else Power.from_watts(spec["watts"]))
            got = []
            for rx in rxs:
                while rx._q:  # noqa: SLF001
                    got.append(rx.consume())
            _ = pool.power_status.new_receiver()  # subscribes to the reports: a ReportRequest on the wrapper's channel
            await asyncio.sleep(0.01)
            subs = []
            for rx in sub_rxs:
                while rx._q:  # noqa: SLF001
                    subs.append(rx.consume())
            out["pools"].append({"spec": spec, "proposals": [
                {"priority": p.priority, "op": p.set_operating_point, "ids": sorted(p.component_ids),
                 "watts": None if p.preferred_power is None else p.preferred_power.as_watts(), "source": p.source_id} for p in got],
                "report_requests": [{"priority": r.priority, "op": r.set_operating_point, "ids": sorted(r.component_ids)}
                                    for r in subs if r.priority == spec["priority"]]})
    finally:
        _data_pipeline._DATA_PIPELINE = saved  # noqa: SLF001
        await dp._stop()  # noqa: SLF001


def _check_factory(case: dict[str, Any], rec: Any) -> None:
    out: dict[str, Any] = {"pools": []}
    run_virtual(lambda: _drive_factory(case, out), monitor=LoopMonitor())
    rec.bucket("factory-tier(pools from microgrid.new_*_pool)")
    all_ids = {"battery": [21, 22], "ev_charger": [41, 42], "pv": [31, 32]}
    for ob in out["pools"]:
        spec = ob["spec"]
        rec.bucket("factory:" + spec["kind"])
        if spec["op"]:
            rec.bucket("factory:operating-point-pool")
        rec.count("pool_proposals_observed", len(ob["proposals"]))
        want = {"priority": spec["priority"], "op": spec["op"], "ids": sorted(spec["ids"] or all_ids[spec["kind"]]),
                "watts": spec["watts"]}
        w = {"asked_for": spec, "expected_proposal": want, "observed": ob}
        if len(ob["proposals"]) != 1:
            rec.violation("pool-from-the-factory-did-not-send-exactly-one-proposal", w)
            continue
        got = {k: ob["proposals"][0][k] for k in want}
        if got != want:
            # the kind of an actor (regular / operating point), its priority and its component group decide how its
            # proposal enters the sum that is distributed
            rec.violation("proposal-of-a-factory-pool-differs-from-what-the-pool-was-created-for", w)
            continue
        for r in ob["report_requests"]:
            if r["op"] != spec["op"] or r["ids"] != want["ids"]:
                rec.violation("report-subscription-of-a-factory-pool-differs-from-what-the-pool-was-created-for", w)
                break
    rec.nontrivial(len(out["pools"]) >= 2)
    rec.observed({"pools": out["pools"][:3]})


def check(case: dict[str, Any], rec: Any) -> None:
    if case.get("kind") == "factory":
        _check_factory(case, rec)
        return
    out: dict[str, Any] = {"steps": []}
    mon = LoopMonitor()
    run_virtual(lambda: _drive(case, out), monitor=mon)
    if mon.loop_exceptions:
        rec.count("loop_exceptions", len(mon.loop_exceptions))
    prev_state: dict[int, Any] = {}
    last_reported: dict[tuple[int, bool, str], float | None] = {}
    subscribers: dict[tuple[int, bool], set[str]] = {}
    for e in case["events"]:
        if e["k"] == "prop":
            subscribers.setdefault((e["g"], e["op"]), set()).add(e["src"])
    rec.bucket("manager-of:" + case.get("category", "battery"))
    pr_reg = {e["prio"] for e in case["events"] if e["k"] == "prop" and not e["op"]}
    pr_op = {e["prio"] for e in case["events"] if e["k"] == "prop" and e["op"]}
    if pr_reg & pr_op:
        rec.bucket("regular-and-operating-point-actor-with-the-same-priority")
    if any(e["k"] == "prop" and "nan" in (e.get("lo"), e.get("hi")) for e in case["events"]):
        rec.bucket("proposal-with-a-NaN-bound")
    if any(len(v) > len({x for x in v if not x.endswith("b")}) for v in subscribers.values()):
        rec.bucket("two-actors-with-the-same-priority")
    for cid in out.get("pool_requests", []):
        if cid is None:
            rec.violation("bounds-tracked-for-all-components-instead-of-the-group", {"pool_requests": out["pool_requests"]})
            return
    nontrivial = False
    n_req = 0
    last_prop_T: dict[tuple[int, bool], float] = {}
    rec.count("proposals_sent", out.get("proposals_sent", 0))
    if out.get("via_wrapper"):
        rec.bucket("manager-created-by-the-power-wrapper")
    if out.get("burst_T"):
        rec.bucket("proposals-issued-in-one-loop-iteration")
    if out.get("proposals_lost") or out.get("proposals_repeated"):
        rec.violation("proposal-did-not-reach-the-algorithm-exactly-once",
                      {"lost_event_indices": out.get("proposals_lost"), "repeated": out.get("proposals_repeated"),
                       "sent": out.get("proposals_sent"), "via_wrapper": bool(out.get("via_wrapper")),
                       "events": case["events"][:40]})
        return
    burst_T = sorted(out.get("burst_T", {}).items())
    for st in out["steps"]:
        ev = st["ev"]
        while burst_T and burst_T[0][0] < st["i"]:  # proposals sent in the same go, before this step's own event
            idx, t = burst_T.pop(0)
            last_prop_T[(case["events"][idx]["g"], case["events"][idx]["op"])] = t
        if ev["k"] == "prop":
            # expiry, judged independently of the resolvers' own state: when this proposal makes the manager re-resolve
            # the group, an actor kind whose every proposal is older than the maximum age (60 s, + the 1 s clean-up
            # timer, + slack) no longer has a say
            for kind_op in (False, True):
                seen = last_prop_T.get((ev["g"], kind_op))
                if kind_op != ev["op"] and seen is not None and st["T"] - seen > 63.0:
                    rec.count("expired_kind_checks")
                    cur = st["state"][ev["g"]]["op" if kind_op else "reg"]
                    if cur is not None and abs(cur) > 1e-9:
                        rec.violation("proposals-older-than-the-maximum-age-still-count",
                                      {"step": st["i"], "event": ev, "kind_operating_point": kind_op,
                                       "age_of_its_newest_proposal_s": st["T"] - seen, "its_target": cur})
            last_prop_T[(ev["g"], ev["op"])] = st["T"]
        for key, rep in st["reports"].items():
            g = int(key.split("/")[0])
            last_reported[(g, rep["op"], key.split("/")[2])] = rep["target"]
            rec.count("reports_checked")
            # a report's target is the resolver's current target (hooked state)
            cur = st["state"][g]["op" if rep["op"] else "reg"]
            if rep["target"] != cur:
                rec.violation("report-target-differs-from-resolver-state",
                              {"step": st["i"], "event": ev, "report": rep, "state": st["state"][g]})
        if ev["k"] == "advance" and ev["dt"] > 60:
            rec.bucket("expiry")
        if ev["k"] == "bounds" and ev["sys"] is None:
            rec.bucket("bounds-None")
        # requests of this step: the last one per group is judged against the state at quiescence
        by_group: dict[int, list[float]] = {}
        for r in st["requests"]:
            by_group.setdefault(r["g"], []).append(r["power"])
        for g, powers in by_group.items():
            n_req += 1
            rec.count("requests_checked", len(powers))
            s = st["state"][g]
            reg, op = s["reg"] or 0.0, s["op"] or 0.0
            rr = {a: last_reported.get((g, False, a)) for a in sorted(subscribers.get((g, False), ()))}
            ro = {a: last_reported.get((g, True, a)) for a in sorted(subscribers.get((g, True), ()))}
            p_old = prev_state.get(g, {"reg": None, "op": None})
            changed = [k for k in ("reg", "op") if p_old[k] != s[k]]
            w = {"step": st["i"], "event": ev, "request_powers": powers, "resolver_targets": s,
                 "last_reported_targets": {"regular": rr, "operating_point": ro}, "previous_targets": p_old,
                 "bounds": st["bounds"][g]}
            if ev["k"] == "bounds":
                rec.bucket("bounds-only-step-with-request")
            if ev["k"] == "result":
                rec.bucket("partial-failure-resend")
                if st["i"] in out.get("late_results", []):
                    rec.bucket("late-partial-failure-resend")
            if len(changed) == 1 and p_old["reg"] is not None and p_old["op"] is not None:
                rec.bucket("only-one-target-changed")
            if abs(reg) > 1e-9 and abs(op) > 1e-9:
                rec.bucket("both-targets-nonzero")
            if s["reg"] is not None and s["op"] is not None:
                nontrivial = True
            got = powers[-1]
            if not abs(got - (reg + op)) <= 1e-6:
                rec.violation("request-differs-from-sum-of-targets", {**w, "expected_sum": reg + op})
            else:
                # ... and that is what the group's (subscribed) actors have been told last
                for kind_op, told_by_actor, cur in ((False, rr, s["reg"]), (True, ro, s["op"])):
                    for a, told in told_by_actor.items():  # every subscribed actor of that kind
                        if cur is None:
                            continue
                        rec.count("reported_targets_compared")
                        if told is None or not abs(told - cur) <= 1e-6:
                            rec.violation("request-sent-but-the-group's-actors-were-not-told-the-new-target",
                                          {**w, "operating_point_actors": kind_op, "actor": a, "last_reported": told,
                                           "current": cur})
            b = st["bounds"][g]
            for pw in powers:
                if b is None or b["sys"] is None:
                    if abs(pw) > 1e-9:
                        rec.violation("nonzero-request-without-inclusion-bounds", w)
                else:
                    lo, hi = b["sys"]
                    if not (lo - 1e-6 <= pw <= hi + 1e-6):
                        rec.violation("request-outside-latest-inclusion-bounds", w)
                    if abs(pw - lo) < 1e-9 or abs(pw - hi) < 1e-9:
                        rec.bucket("request-on-bound")
        prev_state = {g: dict(v) for g, v in st["state"].items()}
    if "doc" in case:
        rec.bucket("doc-table")
        reqs = [r["power"] for st in out["steps"] for r in st["requests"]]
        if not reqs or not abs(reqs[-1] - case["expect_last_request"]) <= 1e-6:
            rec.violation("documented-table-distributed-power", {"doc": case["doc"], "requests": reqs,
                                                                 "expected": case["expect_last_request"]})
        final = out["steps"][-1]["reports"]
        for prio, exp in case["expect_bounds"].items():
            got_b = next((v for k, v in final.items() if k.startswith(f"0/{prio}/")), {}).get("bounds")
            if got_b != exp:
                rec.violation("documented-table-available-bounds", {"doc": case["doc"], "priority": prio,
                                                                    "reported": got_b, "expected": exp})
    rec.nontrivial(nontrivial and n_req >= 1)
    rec.observed({"requests": [r for st in out["steps"] for r in st["requests"]][:12],
                  "final_targets": out["steps"][-1]["state"] if out["steps"] else None})


def _f_unchanged_target_dropped(case: dict[str, Any], v: dict[str, Any]) -> bool:
    return False


FINDINGS: dict[str, Any] = {}
