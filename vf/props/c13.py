"""C13 — missing formula inputs propagate as None, or count as zero on request.

Monitor: samples received from real formula engines fed with a per-timestamp, per-leaf 'missing'
mask (None / NaN / +inf / -inf), both nones_are_zeros settings (per formula and per stream) and
divisor-zero vectors; oracle = three-valued reference evaluation.
"""

from __future__ import annotations

from datetime import timedelta
from fractions import Fraction as F
from typing import Any

from .. import formula as fm
from ..vloop import LoopMonitor, run_virtual
from . import c05

ID = "C13"
LEVEL = "exploration"
TECHNIQUE = ("runtime monitor: outputs of real formula engines under generated missing-value masks and divisor-zero "
             "vectors vs a three-valued (bottom-propagating) reference evaluation; per-operator/per-operand-position "
             "coverage buckets")
LEVEL_TEXT = ("held on N generated programs x 10 rounds with random missing masks in every encoding, both "
              "nones_are_zeros settings and exact division by zero; None-iff-bottom and exactly-one-output-per-input-"
              "timestamp are checked on every round; each operator is required to be seen with the missing operand on "
              "the left and on the right. Exploration over programs and masks.")
LEVEL_NOTE = ("reference: missing leaf -> bottom (or 0 when that stream treats missing as zero); any operator with a "
              "bottom operand -> bottom; x/0 -> bottom; non-finite -> bottom. Value comparison as in C05")
RULE = ("C05's program generator (strings, tokenizer+builder with per-stream flags, operator API with per-leaf and "
        "per-formula flags) x missing masks (each leaf missing with p in {0.15,0.5}, all four encodings) and vectors "
        "forcing exact zero divisors. distinct = canonical program JSON; non-trivial = >=1 round with a missing input "
        "or zero divisor, and >=1 round with all inputs present")
OPS = ["+", "-", "*", "/", "min", "max"]
REQUIRED_BUCKETS = (["enc:none", "enc:nan", "enc:inf", "enc:-inf", "naz-formula", "naz-stream", "naz-off",
                     "division-by-zero", "overflow-expected-None", "consumption-of-missing", "production-of-missing", "clip-of-missing", "expected-None",
                     "expected-value-despite-missing(zeros)"]
                    + [f"missing-{side}-of:{op}" for op in OPS for side in ("left", "right")])
REQUIRED_COUNTERS = ["rounds_checked", "programs_run"]
ASSUMPTIONS = ["one input vector per timestamp on every stream (lock-step feeding; delivery schedules are C06)"]


def budget(tier: str) -> dict[str, Any]:
    if tier == "quick":
        return {"shards": 8, "cases": 3600}
    return {"shards": 32, "cases": 8000, "hashseeds": [0, 1, 2, 3]}


def gen(rng: Any, tier: str, i: int) -> Any:
    prog = c05.gen(rng, tier, i)
    while prog["mode"] == "api3":  # 3-phase composition is exercised by C05 only
        prog = c05.gen(rng, tier, i)
    prog.pop("gap", None)  # (every stream carries a sample for every timestamp here; gaps are C05/C06)
    n = prog["nleaf"]
    while len(prog["vectors"]) < 10:
        prog["vectors"].append([rng.choice(fm.POOL) for _ in range(n)])
    p = rng.choice([0.15, 0.15, 0.5])
    prog["missing"] = [[(rng.choice(["none", "nan", "inf", "-inf"]) if rng.random() < p else None) for _ in range(n)]
                       for _ in prog["vectors"]]
    prog["missing"][0] = [None] * n  # at least one fully valid round
    # rounds with huge inputs: products / sums overflow to +-inf, which must be emitted as None
    for k in range(1, len(prog["vectors"])):
        if rng.random() < 0.12:
            prog["vectors"][k] = [rng.choice([1e200, -1e200, 1e160, 3e307, 2.0]) for _ in range(n)]
    if prog["mode"] in ("builder", "builderx"):
        prog["leaf_naz"] = [rng.random() < 0.4 for _ in range(n)]
        prog["naz"] = False
    elif prog["mode"] == "api":
        prog["leaf_naz"] = [rng.random() < 0.2 for _ in range(n)]
        prog["naz"] = rng.random() < 0.35
    else:
        prog["naz"] = rng.random() < 0.4
    if prog["mode"] == "pool" and rng.random() < 0.5:
        prog["pool_prior_other_naz"] = True
    if prog.get("naz") or any(prog.get("leaf_naz") or []):
        prog.pop("nest", None)  # (a separately built sub-formula yields None, not the zeros of its inputs)
    return prog


def _flt(x: F) -> float:
    try:
        return float(x)
    except OverflowError:
        return float("inf") if x > 0 else float("-inf")


def _missing_positions(a: Any, vals: list[Any], out: set[str]) -> Any:
    """Evaluate bottom-ness per node; record (operator, side) where a bottom operand meets a present one."""
    k = a[0]
    if k == "leaf":
        return vals[a[1]] is fm.BOT
    if k == "const":
        return False
    if k == "un":
        b = _missing_positions(a[2], vals, out)
        if b:
            out.add(f"{a[1]}-of-missing")
        return b
    lb = _missing_positions(a[2], vals, out)
    rb = _missing_positions(a[3], vals, out)
    if lb and not rb:
        out.add(f"missing-left-of:{a[1]}")
    if rb and not lb:
        out.add(f"missing-right-of:{a[1]}")
    return lb or rb


def check(prog: dict[str, Any], rec: Any) -> None:
    ast = prog["ast"]
    n = prog["nleaf"]
    rec.bucket("mode:" + prog["mode"])
    if prog.get("naz"):
        rec.bucket("naz-formula")
    if any(prog.get("leaf_naz") or []):
        rec.bucket("naz-stream")
    if not prog.get("naz") and not any(prog.get("leaf_naz") or []):
        rec.bucket("naz-off")
    out: dict[str, Any] = {"rounds": []}
    mon = LoopMonitor()
    run_virtual(lambda: fm.run_program(prog, out, pace_timeout=2.0), monitor=mon)
    rec.count("programs_run")
    saw_missing = saw_full = False
    shown = []
    for k, vec in enumerate(prog["vectors"]):
        miss = prog["missing"][k]
        for m in miss:
            if m is not None:
                rec.bucket("enc:" + m)
        vals = fm.ref_values(prog, k)
        pos: set[str] = set()
        _missing_positions(ast, vals, pos)
        for p in pos:
            rec.bucket(p)
        dz = fm.div_by_zero_somewhere(ast, vals)
        if dz:
            rec.bucket("division-by-zero")
        try:
            ref = fm.evb(ast, vals)
        except fm.IllConditioned:
            rec.count("rounds_ill_conditioned(bound undefined)")
            continue
        any_missing = any(m is not None for m in miss)
        saw_missing = saw_missing or any_missing or dz
        saw_full = saw_full or not any_missing
        got = out["rounds"][k] if k < len(out["rounds"]) else []
        rec.count("rounds_checked")
        w = {"program": prog.get("src") or c05.fm_repr(ast), "engine_formula": out.get("formula_str"),
             "mode": prog["mode"], "naz": prog.get("naz"), "leaf_naz": prog.get("leaf_naz"), "round": k,
             "inputs": vec, "missing": miss, "expected": "None" if ref is fm.BOT else _flt(ref[0]),
             "outputs": [(str(t), v) for t, v in got], "division_by_zero": dz,
             "missing_positions": sorted(pos)}
        if len(got) != 1:
            rec.violation("not-exactly-one-output-for-input-timestamp", w)
            continue
        ts, val = got[0]
        if ts != fm.T0 + timedelta(seconds=k):
            rec.violation("output-timestamp-differs-from-input-timestamp", w)
            continue
        if ref is fm.BOT:
            rec.bucket("expected-None")
            if val is not None:
                rec.violation("value-emitted-although-input-missing-or-result-undefined", {**w, "got": val})
        else:
            exp, bound = ref
            if any(abs(x) >= 1e150 for x in vec):
                # huge-input rounds exist to exercise "a non-finite result is emitted as None". They are judged
                # only in the sure case: the exact result exceeds the float range while every *proper*
                # sub-expression stays inside it, so the float evaluation overflows exactly at the root.
                # Everything else (intermediate overflow to inf, underflow to 0) is float-range behaviour the
                # exact reference cannot predict: skipped, counted.
                kids = [ast[2]] if ast[0] == "un" else ([ast[2], ast[3]] if ast[0] == "bin" else [])
                inner = max([fm.max_abs(k2, vals) for k2 in kids] or [F(0)])
                inner_small = [m for m in (fm.min_abs_nonzero(k2, vals) for k2 in kids) if m is not None]
                sure = (abs(exp) > F(18, 10) * F(10) ** 308 and inner < F(10) ** 300
                        and (not inner_small or min(inner_small) > F(1, 10 ** 290)))
                if sure:
                    rec.bucket("overflow-expected-None")
                    if val is not None:
                        rec.violation("non-finite-result-emitted-as-a-value", {**w, "got": val})
                else:
                    rec.count("huge_input_rounds_not_judged(float range effects)")
                continue
            if any_missing:
                rec.bucket("expected-value-despite-missing(zeros)")
            if val is None:
                # a float overflow of a defined expression is "not finite" and may be None
                if abs(exp) < F(10) ** 300:
                    rec.violation("None-emitted-although-all-needed-inputs-present", w)
            elif abs(F(val) - exp) > 4 * bound + F(1, 10 ** 300):
                rec.violation("value-differs-from-expression", {**w, "got": val, "error_bound": _flt(bound)})
        if len(shown) < 3 and (any_missing or dz):
            shown.append({"inputs": vec, "missing": miss, "expected": w["expected"], "got": val})
    rec.nontrivial(saw_missing and saw_full)
    rec.observed({"formula": out.get("formula_str"), "naz": prog.get("naz"), "leaf_naz": prog.get("leaf_naz"),
                  "rounds": shown})


# ----------------------------------------------------------------- known-finding predicates
FINDINGS: dict[str, Any] = {}
