"""C19 — formulas switch to fallback components when a primary meter fails.

Monitor: output of a real FormulaEngine with one term MetricFetcher(primary, fallback=...) plus 0-2
ordinary terms. Primary sample k carries 1000+k, fallback 2000+k, other term i carries
(k+1)*1e4*100^i, so every output decodes to *which source and which index* fed the term.
Tier A: a harness FallbackMetricFetcher double over a fed channel (the public seam).
"""

from __future__ import annotations

import asyncio
from datetime import timedelta
from typing import Any

from .. import formula as fm
from ..vloop import LoopMonitor, run_virtual

ID = "C19"
LEVEL = "fault_enumeration"
TECHNIQUE = ("runtime monitor: provenance-encoding input samples, decoded from the outputs of a real FormulaEngine "
             "whose term has a fallback, under generated valid/missing masks, delivery lags and injected stream "
             "faults (primary closed / raising, fallback closed / late start); oracle = source-and-index rule with a "
             "bounded, measured start-up window")
LEVEL_TEXT = ("held on N generated fault scripts: masks on both streams (runs, alternations, all-missing), fallback "
              "delivered before/with/1-2 rounds after the primary of the same index, fallback engine starting 0-5 "
              "samples late, primary stream closed or raising a receiver error at any index, fallback stream closed. "
              "Every output is decoded to (source, index). Fault injection at the stream boundary + schedule "
              "exploration; 'returns to the primary' and 'bounded start-up delay' are decided as bounded progress.")
LEVEL_NOTE = ("fallback = harness double implementing FallbackMetricFetcher over a fed channel (samples sent before "
              "start() are not seen, as for a lazily started formula engine); producer paced <=3 rounds ahead of the "
              "engine and streams continue 6 indices past the checked range")
RULE = ("random scripts N=8..40 indices; distinct = canonical script JSON; non-trivial = primary invalid at >=1 index "
        "where the fallback is valid and started, and primary valid again later (or closed)")
REQUIRED_BUCKETS = ["primary-closed", "primary-raises", "primary-raises-while-fallback-in-step", "fallback-closed", "fallback-late-start", "lag:-1", "lag:0",
                    "lag:1", "lag:2", "recovery-to-primary", "both-invalid", "fallback-value-used",
                    "primary-closed-before-any-failure", "other-terms:0", "other-terms:2",
                    "tier-B(real FallbackFormulaMetricFetcher)", "tier-B:pv-meter", "tier-B:grid-successor-meters", "tier-B:grid-successor-meters-reactive", "tier-B:producer-chp-meter", "tier-B:grid-successor-ev-meter", "tier-B:grid-successor-battery-meter", "tier-B:battery-formula-over-two-meters", "tier-B:battery-also-fed-from-the-other-meter",
                    "term-with-fallback-and-nones-are-zeros"]
REQUIRED_COUNTERS = ["outputs_decoded", "scripts_run"]
ASSUMPTIONS = ["tier A: the fallback is a test double at the public FallbackMetricFetcher seam; tier B: real PVPowerFormula + "
               "FallbackFormulaMetricFetcher over a fake resampler (registry channels served per ComponentMetricRequest)"]

TAIL = 6


def budget(tier: str) -> dict[str, Any]:
    if tier == "quick":
        return {"shards": 8, "cases": 1200}
    return {"shards": 32, "cases": 6000, "hashseeds": [0, 1, 2, 3]}


def gen(rng: Any, tier: str, i: int) -> Any:
    N = rng.randint(8, 40)
    r = rng.random()
    if r < 0.3:
        a = rng.randint(1, N - 2)
        b = rng.randint(a + 1, N)
        pmask = [not (a <= k < b) for k in range(N)]
    elif r < 0.4:
        pmask = [k % 2 == 0 for k in range(N)]
    elif r < 0.5:
        pmask = [False] * N
    else:
        p = rng.choice([0.5, 0.8, 0.95])
        pmask = [rng.random() < p for _ in range(N)]
    q = rng.choice([0.6, 0.9, 1.0, 1.0])
    fmask = [rng.random() < q for _ in range(N)]
    fault = rng.choice([None, None, "close_primary", "close_primary", "raise_primary", "close_fallback"])
    if rng.random() < 0.3:
        # tier B: the real PVPowerFormula with its real FallbackFormulaMetricFetcher over a fake resampler
        topo = rng.choice(["pv-meter", "pv-meter", "grid-successor-meters", "grid-successor-meters-reactive",
                           "producer-chp-meter", "grid-successor-ev-meter", "grid-successor-battery-meter",
                           "battery-formula-over-two-meters"])
        return {"tier": "B", "topo": topo, "N": N, "pmask": pmask, "fmask": [True] * N, "lag": 0, "fallback_skip": 0,
                "n_other": 1,
                "fault": rng.choice([None, None, "close_primary"]), "fault_at": rng.randint(0, N - 1),
                "yields": [rng.choice([0, 0, 1, 3, 10]) for _ in range(N + TAIL + 3)],
                "order": [rng.random() < 0.5 for _ in range(N + TAIL + 3)],
                "enc": [rng.choice(["none", "nan", "inf"]) for _ in range(N)]}
    return {"term_naz": rng.random() < 0.25, "N": N, "pmask": pmask, "fmask": fmask, "lag": rng.choice([-1, 0, 0, 1, 2]),
            "fallback_skip": rng.choice([0, 0, 0, 1, 3, 5]), "n_other": rng.choice([0, 1, 1, 2]),
            "fault": fault, "fault_at": rng.randint(0, N - 1) if fault else None,
            "yields": [rng.choice([0, 0, 1, 3, 10]) for _ in range(N + TAIL + 3)],
            "enc": [rng.choice(["none", "nan", "inf"]) for _ in range(N)]}


def _mk_double(chan: Any, skip: int, log: dict[str, Any]) -> Any:
    from frequenz.sdk.timeseries.formula_engine._formula_steps import FallbackMetricFetcher

    class Double(FallbackMetricFetcher):  # type: ignore[type-arg]
        def __init__(self) -> None:
            self._rx: Any = None
            self._skip = skip

        @property
        def name(self) -> str:
            return "fallback-double"

        @property
        def is_running(self) -> bool:
            return self._rx is not None

        def start(self) -> None:
            self._rx = chan.new_receiver(limit=200)
            log["started_at_sent"] = log["fallback_sent"]  # producer position when the fallback was started
            log["starts"] = log.get("starts", 0) + 1

        async def ready(self) -> bool:
            if self._rx is None:
                self.start()
            while True:
                ok = await self._rx.ready()
                if not ok:
                    return False
                if self._skip > 0:  # a lazily started engine needs some ticks before its first output
                    self._skip -= 1
                    self._rx.consume()
                    log["skipped"] = log.get("skipped", 0) + 1
                    continue
                return True

        def consume(self) -> Any:
            s = self._rx.consume()
            log.setdefault("fallback_received", []).append(round((s.timestamp - fm.T0).total_seconds()))
            return s

    return Double()


def _mk_faulty(inner: Any, raise_at_count: int) -> Any:
    from frequenz.channels import Receiver, ReceiverError

    class Faulty(Receiver):  # type: ignore[type-arg]
        def __init__(self) -> None:
            self.n = 0

        async def ready(self) -> bool:
            return await inner.ready()

        def consume(self) -> Any:
            v = inner.consume()
            self.n += 1
            if self.n == raise_at_count + 1:
                raise ReceiverError("injected receiver error", self)
            return v

    return Faulty()


async def _drive(case: dict[str, Any], out: dict[str, Any]) -> None:
    from frequenz.channels import Broadcast
    from frequenz.quantities import Quantity

    from frequenz.sdk.timeseries import Sample
    from frequenz.sdk.timeseries.formula_engine._formula_engine import FormulaBuilder

    N = case["N"]
    total = N + TAIL
    pc, fc = Broadcast(name="p"), Broadcast(name="f")
    ocs = [Broadcast(name=f"o{i}") for i in range(case["n_other"])]
    log: dict[str, Any] = {"fallback_sent": 0}
    out["log"] = log
    fb = _mk_double(fc, case["fallback_skip"], log)
    prx = pc.new_receiver(limit=200)
    if case["fault"] == "raise_primary":
        prx = _mk_faulty(prx, case["fault_at"])
    b = FormulaBuilder("t", Quantity)
    # (a term may both have a fallback and count missing values as zero)
    b.push_metric("#1", prx, nones_are_zeros=bool(case.get("term_naz")), fallback=fb)
    for i, oc in enumerate(ocs):
        b.push_oper("+")
        b.push_metric(f"#{i + 2}", oc.new_receiver(limit=200), nones_are_zeros=False)
    eng = b.build()
    rx = eng.new_receiver(max_size=1000)
    ps, fs = pc.new_sender(), fc.new_sender()
    oss = [oc.new_sender() for oc in ocs]
    await asyncio.sleep(0)

    def smp(k: int, v: float | None, enc: str = "none") -> Any:
        ts = fm.T0 + timedelta(seconds=k)
        if v is None:
            return Sample(ts, None if enc == "none" else Quantity(float(enc)))
        return Sample(ts, Quantity(float(v)))

    pm = case["pmask"] + [True] * TAIL
    fmk = case["fmask"] + [True] * TAIL
    enc = case["enc"] + ["none"] * TAIL
    lag = case["lag"]
    p_closed = f_closed = False
    outs: list[Any] = []

    async def send_fallback(kk: int) -> None:
        nonlocal f_closed
        if not (0 <= kk < total) or f_closed:
            return
        if case["fault"] == "close_fallback" and kk >= case["fault_at"]:
            await fc.close()
            f_closed = True
            return
        await fs.send(smp(kk, 2000 + kk if fmk[kk] else None))
        log["fallback_sent"] = kk + 1

    for k in range(total + max(lag, 0) + 1):
        if lag < 0:
            await send_fallback(k - lag)  # fallback of index k+1 arrives before the primary of index k+1
        if k < total:
            if case["fault"] == "close_primary" and k == case["fault_at"] and not p_closed:
                await pc.close()
                p_closed = True
            if not p_closed:
                await ps.send(smp(k, 1000 + k if pm[k] else None, enc[k] if enc[k] != "none" else "none"))
            for i, o in enumerate(oss):
                await o.send(smp(k, (k + 1) * 1e4 * (100 ** i)))
        if lag >= 0:
            await send_fallback(k - lag)
        for _ in range(case["yields"][min(k, len(case["yields"]) - 1)]):
            await asyncio.sleep(0)
        # pace: never more than 3 rounds ahead of the engine (virtual-time bounded wait)
        for _ in range(400):
            while rx._q:  # noqa: SLF001
                outs.append(rx.consume())
            if len(outs) + log.get("dropped_rounds_estimate", 0) >= min(k, total - 1) - 3 - max(lag, 0):
                break
            await asyncio.sleep(0.001)
    await asyncio.sleep(0.5)
    while rx._q:  # noqa: SLF001
        outs.append(rx.consume())
    out["outs"] = [(round((s.timestamp - fm.T0).total_seconds()), None if s.value is None else s.value.base_value)
                   for s in outs]
    try:
        await eng._stop()  # noqa: SLF001
    except Exception:  # pylint: disable=broad-except
        pass


async def _drive_b(case: dict[str, Any], out: dict[str, Any]) -> None:
    """Tier B: grid -> meter 2 -> {PV meter 3 -> inverters 4, 5 ; PV meter 6 -> inverter 7}. The engine is built by
    the real PVPowerFormula (allow_fallback=True); a fake resampler serves every ComponentMetricRequest that the
    engines send (the primary engine at start, the fallback engine when it is lazily started)."""
    from unittest.mock import MagicMock  # noqa: F401

    from frequenz.channels import Broadcast
    from frequenz.client.microgrid import (Component, ComponentCategory, Connection,
                                           InverterType)
    from frequenz.quantities import Quantity

    import frequenz.sdk.microgrid  # noqa: F401  (must be imported first: circular imports in the SDK)
    from frequenz.sdk._internal._channels import ChannelRegistry
    from frequenz.sdk.timeseries import Sample
    from frequenz.sdk.timeseries.formula_engine._formula_generators import (FormulaGeneratorConfig,
                                                                            PVPowerFormula)

    from .. import fakes

    C = ComponentCategory
    PRIMARY = 3
    battery_ids: Any = None
    formula_cls: Any = PVPowerFormula
    wanted_metric = "ACTIVE_POWER"
    if case.get("topo") in ("grid-successor-meters", "grid-successor-meters-reactive"):
        # no grid meter: grid -> {PV meter 3 -> inverters 4, 5 ; PV meter 6 -> inverter 7}. The grid power formula is the
        # sum of the grid's successors, each dedicated meter with its inverters as fallback. (A *grid meter* has no
        # fallback: it also measures loads without a meter of their own, see DESIGN 8.2.)
        from frequenz.sdk.timeseries.formula_engine._formula_generators import GridPowerFormula

        comps = [Component(1, C.GRID), Component(3, C.METER), Component(6, C.METER),
                 Component(4, C.INVERTER, InverterType.SOLAR), Component(5, C.INVERTER, InverterType.SOLAR),
                 Component(7, C.INVERTER, InverterType.SOLAR)]
        conns = [Connection(1, 3), Connection(1, 6), Connection(3, 4), Connection(3, 5), Connection(6, 7)]
        formula_cls = GridPowerFormula
        if case["topo"] == "grid-successor-meters-reactive":
            from frequenz.sdk.timeseries.formula_engine._formula_generators import \
                GridReactivePowerFormula

            formula_cls = GridReactivePowerFormula
            wanted_metric = "REACTIVE_POWER"
    elif case.get("topo") == "producer-chp-meter":
        # the other dedicated-meter kinds: a CHP meter (3 -> CHPs 4, 5) next to a PV meter, through ProducerPowerFormula
        from frequenz.sdk.timeseries.formula_engine._formula_generators import ProducerPowerFormula

        comps = [Component(1, C.GRID), Component(2, C.METER), Component(3, C.METER), Component(6, C.METER),
                 Component(4, C.CHP), Component(5, C.CHP), Component(7, C.INVERTER, InverterType.SOLAR)]
        conns = [Connection(1, 2), Connection(2, 3), Connection(2, 6), Connection(3, 4), Connection(3, 5), Connection(6, 7)]
        formula_cls = ProducerPowerFormula
    elif case.get("topo") == "battery-formula-over-two-meters":
        # the battery pool's own power formula: grid -> meter 2 -> {battery meter 3 -> inverters 4, 5 ; battery meter 6 ->
        # inverter 7}; batteries 8 (on 4), 9 (on 5 - and, in half of the cases, on 7 as well) and 10 (on 7)
        from frequenz.sdk.timeseries.formula_engine._formula_generators import BatteryPowerFormula

        comps = [Component(1, C.GRID), Component(2, C.METER), Component(3, C.METER), Component(6, C.METER),
                 Component(4, C.INVERTER, InverterType.BATTERY), Component(5, C.INVERTER, InverterType.BATTERY),
                 Component(7, C.INVERTER, InverterType.BATTERY), Component(8, C.BATTERY), Component(9, C.BATTERY),
                 Component(10, C.BATTERY)]
        conns = [Connection(1, 2), Connection(2, 3), Connection(2, 6), Connection(3, 4), Connection(3, 5), Connection(6, 7),
                 Connection(4, 8), Connection(5, 9), Connection(7, 10)]
        if case["N"] % 2:
            conns.append(Connection(7, 9))
        formula_cls = BatteryPowerFormula
        battery_ids = {8, 9, 10}
    elif case.get("topo") in ("grid-successor-ev-meter", "grid-successor-battery-meter"):
        # ... an EV-charger meter (3 -> chargers 4, 5) / a battery meter (3 -> battery inverters 4, 5 -> batteries 8, 9)
        # next to a PV meter, both directly below the grid, through GridPowerFormula
        from frequenz.sdk.timeseries.formula_engine._formula_generators import GridPowerFormula

        comps = [Component(1, C.GRID), Component(3, C.METER), Component(6, C.METER), Component(7, C.INVERTER, InverterType.SOLAR)]
        conns = [Connection(1, 3), Connection(1, 6), Connection(3, 4), Connection(3, 5), Connection(6, 7)]
        if case["topo"] == "grid-successor-ev-meter":
            comps += [Component(4, C.EV_CHARGER), Component(5, C.EV_CHARGER)]
        else:
            comps += [Component(4, C.INVERTER, InverterType.BATTERY), Component(5, C.INVERTER, InverterType.BATTERY),
                      Component(8, C.BATTERY), Component(9, C.BATTERY)]
            conns += [Connection(4, 8), Connection(5, 9)]
            if case["N"] % 2:
                # battery 9 is also fed by an inverter behind the *other* meter (7, then a battery inverter): the
                # fallback of meter 3 is still the sum of its own inverters 4 and 5
                comps[3] = Component(7, C.INVERTER, InverterType.BATTERY)
                conns.append(Connection(7, 9))
        formula_cls = GridPowerFormula
    else:
        comps = [Component(1, C.GRID), Component(2, C.METER), Component(3, C.METER), Component(6, C.METER),
                 Component(4, C.INVERTER, InverterType.SOLAR), Component(5, C.INVERTER, InverterType.SOLAR),
                 Component(7, C.INVERTER, InverterType.SOLAR)]
        conns = [Connection(1, 2), Connection(2, 3), Connection(2, 6), Connection(3, 4), Connection(3, 5), Connection(6, 7)]
    fakes.install_connection_manager(comps, conns)
    N = case["N"]
    total = N + TAIL
    reg = ChannelRegistry(name="reg")
    sub = Broadcast(name="sub")
    sub_rx = sub.new_receiver(limit=1000)
    log: dict[str, Any] = {"fallback_sent": 0}
    out["log"] = log
    eng = formula_cls("ns", reg, sub.new_sender(), FormulaGeneratorConfig(component_ids=battery_ids, allow_fallback=True)).generate()
    out["formula_str"] = str(eng)
    rx = eng.new_receiver(max_size=1000)
    await asyncio.sleep(0.001)
    subs: list[Any] = []  # (component id, sender, channel)
    pm = case["pmask"] + [True] * TAIL
    enc = case["enc"] + ["none"] * TAIL
    outs: list[Any] = []
    closed = False

    def value(cid: int, k: int) -> Any:
        if cid == PRIMARY:
            if pm[k]:
                return Quantity(float(1000 + k))
            return None if enc[k] == "none" else Quantity(float(enc[k]))
        return Quantity({4: 1500.0 + k, 5: 500.0, 6: (k + 1) * 1e4, 7: 77.0}[cid])

    for k in range(total):
        while sub_rx._q:  # noqa: SLF001  (new subscriptions are served from the next tick on, like the resampler)
            req = sub_rx.consume()
            ch = reg.get_or_create(Sample[Quantity], req.get_channel_name())
            # the resampler publishes per requested metric: a stream of another metric than the formula's carries
            # recognisably different numbers
            subs.append((req.component_id, ch.new_sender(), ch, req.namespace, req.metric_id.name))
            if req.component_id in (4, 5) and "fallback_received" not in log:
                log["fallback_received"] = list(range(k, total))
                log["started_at_sent"] = k
        ts = fm.T0 + timedelta(seconds=k)
        order = sorted(subs, key=lambda x: (x[0] in (4, 5)) != case["order"][k])
        for cid, tx, ch, _ns, metric in order:
            if cid == PRIMARY and case["fault"] == "close_primary" and k >= case["fault_at"]:
                if not closed:
                    await ch.close()
                    closed = True
                continue
            v = value(cid, k)
            if metric != wanted_metric and v is not None:
                v = Quantity(v.base_value + 4321.0)
            await tx.send(Sample(ts, v))
        for _ in range(case["yields"][min(k, len(case["yields"]) - 1)]):
            await asyncio.sleep(0)
        for _ in range(400):
            while rx._q:  # noqa: SLF001
                outs.append(rx.consume())
            if len(outs) >= min(k, total - 1) - 3:
                break
            await asyncio.sleep(0.001)
    await asyncio.sleep(0.5)
    while sub_rx._q:  # noqa: SLF001
        sub_rx.consume()
    while rx._q:  # noqa: SLF001
        outs.append(rx.consume())
    out["outs"] = [(round((s.timestamp - fm.T0).total_seconds()), None if s.value is None else s.value.base_value)
                   for s in outs]
    try:
        await eng._stop()  # noqa: SLF001
    except Exception:  # pylint: disable=broad-except
        pass


def check(case: dict[str, Any], rec: Any) -> None:
    N, pm, fmk = case["N"], case["pmask"], case["fmask"]
    rec.bucket(f"lag:{case['lag']}")
    rec.bucket(f"other-terms:{case['n_other']}")
    if case["fallback_skip"] > 0:
        rec.bucket("fallback-late-start")
    fault, fat = case["fault"], case["fault_at"]
    if fault == "close_primary":
        rec.bucket("primary-closed")
        if all(pm[:fat]):
            rec.bucket("primary-closed-before-any-failure")
    if fault == "raise_primary":
        rec.bucket("primary-raises")
    if fault == "close_fallback":
        rec.bucket("fallback-closed")
    if case.get("term_naz"):
        rec.bucket("term-with-fallback-and-nones-are-zeros")
    out: dict[str, Any] = {}
    mon = LoopMonitor()
    if case.get("tier") == "B":
        rec.bucket("tier-B(real FallbackFormulaMetricFetcher)")
        rec.bucket("tier-B:" + case.get("topo", "pv-meter"))
        if case.get("topo") in ("grid-successor-battery-meter", "battery-formula-over-two-meters") and case["N"] % 2:
            rec.bucket("tier-B:battery-also-fed-from-the-other-meter")
        run_virtual(lambda: _drive_b(case, out), monitor=mon)
    else:
        run_virtual(lambda: _drive(case, out), monitor=mon)
    rec.count("scripts_run")
    log = out["log"]
    outs = out["outs"]

    def p_valid(k: int) -> bool:
        if k >= N:
            ok = True
        else:
            ok = pm[k]
        if fault == "close_primary" and k >= fat:
            return False
        if fault == "raise_primary" and k == fat:
            return False
        return ok

    def f_valid(k: int) -> bool:
        if fault == "close_fallback" and k >= fat:
            return False
        return fmk[k] if k < N else True

    total = N + TAIL
    f = next((k for k in range(total) if not p_valid(k)), None)
    recv = log.get("fallback_received", [])
    g = recv[0] if recv else None  # first fallback index the started fallback delivered
    window_end = None if f is None else (max(f + 1, g) if g is not None else total)
    if f is not None and g is None and fault != "close_fallback" \
            and N - f >= case["fallback_skip"] + abs(case["lag"]) + 8:
        # "bounded start-up delay": the primary failed long before the end, the fallback stream kept delivering, and
        # yet not a single fallback sample was ever read
        rec.violation("fallback-never-read-although-the-primary-failed",
                      {"first_invalid_primary": f, "rounds": N, "fallback_started": log.get("starts", 0),
                       "fault": fault, "term_counts_missing_as_zero": bool(case.get("term_naz"))})
    by_index: dict[int, list[Any]] = {}
    for k, v in outs:
        by_index.setdefault(k, []).append(v)
    w0 = {"fault": fault, "fault_at": fat, "lag": case["lag"], "fallback_skip": case["fallback_skip"],
          "first_invalid_primary": f, "first_fallback_index_received": g, "n_other": case["n_other"]}
    # A stream failure (closed / raising primary) is a second "first failure": the term is served from the
    # fallback stream without a primary timestamp to align to, the round in which the failure is detected is
    # dropped and the evaluator re-synchronises. Permitted (bounded) window: the fallback's first sample may be
    # skip + lag rounds away, + 1 dropped round + 2 rounds of re-synchronisation.
    post = range(0)
    # a receiver error (not a stop) on the primary while the fallback is already running and in step: the term is
    # simply taken from the fallback for that timestamp, nothing is dropped -> no post-fault allowance
    in_step_before = (fault == "raise_primary" and case.get("tier") != "B" and fat >= 3
                      and any(not pm[k] for k in range(fat - 1)) and any(x <= fat - 1 for x in recv))
    if in_step_before:
        rec.bucket("primary-raises-while-fallback-in-step")
    if fault in ("close_primary", "raise_primary") and not in_step_before:
        # (the fallback sample read at the failure can also be up to lag+1 rounds *older* than the round)
        lo = fat - max(case["lag"], 0) - 1
        r = next((x for x in recv if x >= lo), None)  # first fallback index delivered around/after the failure
        hi = max(fat + case["fallback_skip"] + max(case["lag"], 0), fat if r is None else r) + 4
        post = range(lo, hi)
    idx = [k for k, _ in outs]
    strict_idx = [k for k in idx if k not in post]
    if strict_idx != sorted(set(strict_idx)):
        rec.violation("output-timestamps-repeated-or-reordered", {**w0, "indices": idx[:80]})
    elif idx != sorted(set(idx)):
        rec.observe("timestamps-repeated-or-reordered-inside-post-fault-window")
    used_fallback = recovered = False
    for k in range(N):
        in_window = (f is not None and window_end is not None and f <= k < window_end) or k in post
        vs = by_index.get(k, [])
        w = {**w0, "index": k, "outputs": vs, "primary_valid": p_valid(k), "fallback_valid": f_valid(k),
             "outputs_near": [(i, by_index.get(i)) for i in range(max(0, k - 2), min(total, k + 3))]}
        if len(vs) != 1:
            if in_window and len(vs) == 0:
                rec.count("no-output-inside-startup-window")
                continue
            if not (k in post):
                rec.violation("not-exactly-one-output-for-index", w)
                continue
            rec.observe("duplicate-output-inside-post-fault-window")
        if k in post:
            # each output must still be a true value of index k (either source) or None
            for v in vs:
                if v is None:
                    continue
                iv = round(v)
                term, rest, others = iv % 10000, iv // 10000, []
                for i in range(case["n_other"]):
                    others.append(rest % 100)
                    rest //= 100
                rec.count("outputs_decoded")
                if any(o != k + 1 for o in others) or not ((p_valid(k) and term == 1000 + k) or
                                                           (f_valid(k) and term == 2000 + k) or
                                                           (case.get("term_naz") and term == 0)):
                    rec.violation("post-fault-window-output-is-not-a-true-value-of-its-timestamp",
                                  {**w, "term": term, "decoded_others": others})
            continue
        v = vs[0]
        rec.count("outputs_decoded")
        naz = bool(case.get("term_naz"))
        if v is None and naz:
            rec.violation("None-although-the-term-counts-missing-values-as-zero", w)
            continue
        if v is None:
            if p_valid(k):
                rec.violation("None-although-primary-valid", w)
            elif f_valid(k) and not in_window:
                rec.violation("None-although-fallback-valid-and-started", w)
            elif not f_valid(k):
                rec.bucket("both-invalid")
            else:
                rec.count("None-inside-startup-window")
            continue
        iv = round(v)
        term = iv % 10000
        others = []
        rest = iv // 10000
        for i in range(case["n_other"]):
            others.append(rest % 100)
            rest //= 100
        if any(o != k + 1 for o in others):
            rec.violation("other-term-from-a-different-timestamp", {**w, "decoded_others": others, "term": term})
            continue
        if p_valid(k):
            if term != 1000 + k:
                rec.violation("primary-valid-but-term-not-primary-of-same-index", {**w, "term": term})
            elif used_fallback:
                recovered = True
        else:
            if naz and term == 0 and (not f_valid(k) or in_window):
                # nones_are_zeros term: with no valid source (or before the fallback is in step) it counts as 0
                rec.bucket("missing-term-counted-as-zero")
            elif not f_valid(k):
                rec.violation("value-although-both-sources-invalid", {**w, "term": term})
            elif term != 2000 + k:
                rec.violation("fallback-term-from-wrong-source-or-index", {**w, "term": term})
            else:
                used_fallback = True
                rec.bucket("fallback-value-used")
    if recovered:
        rec.bucket("recovery-to-primary")
    if f is not None and window_end is not None:
        rec.count("startup_window_rounds_total", max(0, min(window_end, N) - f))
    rec.nontrivial(used_fallback and (recovered or fault == "close_primary"))
    rec.observed({"first_invalid_primary": f, "fallback_started_when_producer_at": log.get("started_at_sent"),
                  "first_fallback_index_received": g, "outputs": outs[:14]})


FINDINGS: dict[str, Any] = {}

LEVEL_NOTE += " Rounds 13-14: tier B over CHP / EV / battery meters and the battery pool's own formula over two meters."
