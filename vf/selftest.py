"""Deliberate property-breaking edits used to validate the monitors (DESIGN.md section 6).

python -m vf.selftest [ID ...] [--scale 0.3]

For each listed mutation: apply it to /repo's working tree (exact string replacement), run the quick
check of the properties it should break, record the exit code, and ALWAYS restore the file afterwards
(git checkout). Nothing is committed in /repo. Results are written to /verif/selftest_results.json.
"""

from __future__ import annotations

import json
import subprocess
import sys
from pathlib import Path

import os

REPO = Path(os.environ.get("VERIF_REPO", "/repo"))  # run with VERIF_REPO=<scratch worktree> to leave /repo alone
SRC = "src/frequenz/sdk/"
ALG = SRC + "microgrid/_power_distributing/_distribution_algorithm/_battery_distribution_algorithm.py"
BM = SRC + "microgrid/_power_distributing/_component_managers/_battery_manager.py"
PV = SRC + "microgrid/_power_distributing/_component_managers/_pv_inverter_manager/_pv_inverter_manager.py"
MAT = SRC + "microgrid/_power_managing/_matryoshka.py"
BND = SRC + "microgrid/_power_managing/_bounds.py"
PMA = SRC + "microgrid/_power_managing/_power_managing_actor.py"
FE = SRC + "timeseries/formula_engine/_formula_engine.py"
FS = SRC + "timeseries/formula_engine/_formula_steps.py"
FEV = SRC + "timeseries/formula_engine/_formula_evaluator.py"
FGEN = SRC + "timeseries/formula_engine/_formula_generators/_formula_generator.py"
RS = SRC + "timeseries/_resampling.py"
RB = SRC + "timeseries/_ringbuffer/buffer.py"
MW = SRC + "timeseries/_moving_window.py"
ACT = SRC + "actor/_actor.py"
BGS = SRC + "actor/_background_service.py"
RUN = SRC + "actor/_run_utils.py"
PD = SRC + "microgrid/_power_distributing/power_distributing.py"
BST = SRC + "microgrid/_power_distributing/_component_status/_battery_status_tracker.py"
BLK = SRC + "microgrid/_power_distributing/_component_status/_blocking_status.py"
CST = SRC + "microgrid/_power_distributing/_component_status/_component_status.py"
MC = SRC + "timeseries/battery_pool/_metric_calculator.py"
DS = SRC + "microgrid/_data_sourcing/microgrid_api_source.py"
CG = SRC + "microgrid/component_graph.py"
GPF = SRC + "timeseries/formula_engine/_formula_generators/_grid_power_formula_base.py"
PPF = SRC + "timeseries/formula_engine/_formula_generators/_producer_power_formula.py"

# (name, file, old, new, [properties expected to fire])
MUTATIONS: list[tuple[str, str, str, str, list[str]]] = [
    # ---- C01 / C02
    ("c01-drop-supply-remaining-negation", ALG, "        result.remaining_power *= -1\n", "", ["C01"]),
    ("c01-greedy-without-cap", ALG, "additional_power = min(power.upper_bound - power.power, remaining_power)",
     "additional_power = remaining_power", ["C01", "C02"]),
    ("c01-reserved-without-max", ALG, "reserved_power += max(calculated_power, ratio_data.min_power)",
     "reserved_power += calculated_power", ["C01"]),
    ("c01-drop-excess-add-back", ALG, "            battery_power.power += excess\n", "", ["C01"]),
    ("c01-reintroduce-deficit-bookkeeping", ALG,
     "        for inverter_ids, excess in excess_reserved.items():\n            distributed_power += excess\n",
     "        for inverter_ids, excess in excess_reserved.items():\n            distributed_power += excess\n"
     "        for deficit in deficits.values():\n            if deficit < -0.1:\n                distributed_power += deficit\n",
     ["C01"]),
    ("c01-manager-success-reports-whole-request", BM, "                succeeded_power=Power.from_watts(distributed_power_value),\n                succeeded_components=succeed_batteries,\n                excess_power=Power.from_watts(distribution.remaining_power),",
     "                succeeded_power=request.power,\n                succeeded_components=succeed_batteries,\n                excess_power=Power.from_watts(distribution.remaining_power),", ["C01", "C15"]),
    ("c01-revert-enforced-exclusion-aggregation", BM,
     "            exclusion_upper=sum(\n                max(\n                    battery.power_bounds.exclusion_upper,\n                    sum(\n                        inverter.active_power_exclusion_upper_bound\n                        for inverter in inverters\n                    ),\n                )\n                for battery, inverters in pairs_data\n            ),",
     "            exclusion_upper=max(\n                sum(battery.power_bounds.exclusion_upper for battery, _ in pairs_data),\n                sum(\n                    inverter.active_power_exclusion_upper_bound\n                    for _, inverters in pairs_data\n                    for inverter in inverters\n                ),\n            ),", ["C02"]),
    ("c02-manager-skips-zero-setpoints-of-other-sign", BM, "        distributed_power_value = (\n            request.power.as_watts() - distribution.remaining_power\n        )",
     "        distributed_power_value = (\n            request.power.as_watts() - distribution.remaining_power\n        )\n        distribution.distribution = {k: (v if abs(v) > 60.0 or v == 0.0 else 60.0 * (1 if v > 0 else -1)) for k, v in distribution.distribution.items()}", ["C01", "C02"]),
    # ---- the timedelta.seconds slip at every place a configured duration is converted
    ("c10-restart-delay-seconds", ACT, "delay = self.RESTART_DELAY.total_seconds()", "delay = self.RESTART_DELAY.seconds", ["C10"]),
    ("c03-max-age-seconds", MAT, "max_proposal_age.total_seconds()", "max_proposal_age.seconds", ["C03"]),
    ("c15-battery-timeout-seconds", BM, "            timeout=timeout.total_seconds(),", "            timeout=timeout.seconds,", ["C15"]),
    ("c02-split-ignores-incl", ALG, "new_power = min(incl_bounds[inverter_id], remaining_power)", "new_power = remaining_power",
     ["C02"]),
    ("c02-no-battery-clip-of-inverter-incl", ALG,
     "                    incl_bounds[inverter.component_id] = min(\n                        inverter.active_power_inclusion_upper_bound,\n                        battery.power_bounds.inclusion_upper,\n                    )",
     "                    incl_bounds[inverter.component_id] = (\n                        inverter.active_power_inclusion_upper_bound\n                    )",
     ["C02"]),
    ("c02-available-soc-unclamped", ALG, "            available_soc[battery.component_id] = max(\n                0.0, battery.soc_upper_bound - battery.soc\n            )",
     "            available_soc[battery.component_id] = abs(\n                battery.soc_upper_bound - battery.soc\n            )", ["C02"]),
    ("c02-zero-ratio-check-removed", ALG, "if is_close_to_zero(ratio) or is_close_to_zero(ratio_data.ratio):", "if is_close_to_zero(ratio):",
     ["C02"]),
    # ---- C03 / C04
    ("c03-sort-ascending", MAT, "        for next_proposal in sorted(proposals, reverse=True):\n            if upper_bound < lower_bound:",
     "        for next_proposal in sorted(proposals):\n            if upper_bound < lower_bound:", ["C04"]),
    ("c03-no-replacement", MAT, "            if proposal in bucket:\n                bucket.remove(proposal)\n            bucket.add(proposal)",
     "            bucket.add(proposal)", ["C03"]),
    ("c03-skip-adjust-exclusion", MAT,
     "            lower_bound, upper_bound = _bounds.adjust_exclusion_bounds(\n                lower_bound, upper_bound, exclusion_bounds\n            )\n\n        return target_power",
     "        return target_power", ["C03", "C04"]),
    ("c03-drop-old-ge", MAT, "if (loop_time - proposal.creation_time) > self._max_proposal_age_sec:",
     "if (loop_time - proposal.creation_time) >= self._max_proposal_age_sec:", ["C03"]),
    ("c04-get_status-lt", MAT, "            if next_proposal.priority <= priority:\n                break",
     "            if next_proposal.priority < priority:\n                break", ["C04"]),
    ("c04-clamp-upper-excl-wrong-side", BND, "            case (False, True):\n                if value > exclusion_bounds.lower:\n                    return exclusion_bounds.lower, None",
     "            case (False, True):\n                if value > exclusion_bounds.upper:\n                    return exclusion_bounds.lower, None", ["C03", "C04"]),
    # ---- C11
    ("c11-sum-to-difference", PMA, "            return tgt_power_shift + tgt_power_no_shift", "            return tgt_power_shift - tgt_power_no_shift", ["C11"]),
    ("c11-reports-unshifted", PMA,
     "                self._calculate_shifted_bounds(\n                    bounds,\n                    self._set_op_power_group.get_target_power(component_ids),\n                ),",
     "                bounds,", ["C11"]),
    ("c11-revert-unchanged-target-fix", PMA,
     "        if tgt_power_shift is None:\n            tgt_power_shift = self._set_op_power_group.get_target_power(component_ids)\n", "", ["C11"]),
    # ---- C05 / C13 / C06 / C19
    ("c05-precedence-swap-mul-div", FE, '    "/": 5,\n    "*": 6,', '    "/": 6,\n    "*": 5,', ["C05"]),
    ("c05-precedence-swap-add-sub", FE, '    "-": 7,\n    "+": 8,', '    "-": 8,\n    "+": 7,', ["C05"]),
    ("c05-subtractor-swapped", FS, "        res = val1 - val2\n", "        res = val2 - val1\n", ["C05"]),
    ("c05-consumption-wrong-sign", FS, "        eval_stack.append(max(val, 0))", "        eval_stack.append(max(-val, 0))", ["C05"]),
    ("c05-push-no-paren-lhs", FE, '        self._steps.appendleft((TokenType.OPER, "("))\n        self._steps.append((TokenType.OPER, ")"))\n        self._steps.append((TokenType.OPER, oper))',
     '        self._steps.append((TokenType.OPER, oper))', ["C05"]),
    ("c13-fetcher-pushes-zero", FS, "            else:\n                eval_stack.append(math.nan)", "            else:\n                eval_stack.append(0.0)", ["C13"]),
    ("c13-only-isnan", FEV, "        if isnan(res) or isinf(res):", "        if isnan(res):", ["C13"]),
    ("c13-revert-minmax-fix", FS, "res = math.nan if math.isnan(val1) or math.isnan(val2) else max(val1, val2)", "res = max(val1, val2)", ["C13"]),
    ("c13-revert-div0-fix", FS, "res = val1 / val2 if val2 != 0.0 else math.nan", "res = val1 / val2", ["C13"]),
    ("c06-sync-le", FEV, "                while name_ts < latest_ts:", "                while name_ts <= latest_ts:", ["C06"]),
    ("c06-sync-only-last-of-group", FEV, "                if name_ts > latest_ts:", "                if name == names[-1] and name_ts > latest_ts:", ["C05"]),
    ("c20-accept-unsupported-metric", SRC + "microgrid/_data_sourcing/microgrid_api_source.py", "        if known_metrics is not None and request.metric_id not in known_metrics:", "        if False:", ["C20"]),
    ("c11-report-channel-without-kind", SRC + "microgrid/_power_managing/_base_classes.py", "            f\".{self.set_operating_point=}\"", "            f\"\"", ["C11"]),
    ("c09-mw-dies-on-old-sample", SRC + "timeseries/_moving_window.py", "                    except IndexError as err:", "                    except ZeroDivisionError as err:", ["C09"]),
    ("c17-plain-sum-in-get-bounds", SRC + "microgrid/_power_distributing/_component_managers/_battery_manager.py", "            exclusion_upper=math.fsum(", "            exclusion_upper=1.0000000000000002 * math.fsum(", ["C17"]),
    ("c12-grid-meter-fallback", FGEN, "        if graph.is_grid_meter(meter):\n            return set()", "        if False:\n            return set()", ["C12"]),
    ("c12-battery-fallback-over-batteries", SRC + "timeseries/formula_engine/_formula_generators/_battery_power_formula.py", "            fallback_ids = {c.component_id for c in fallback_components}", "            fallback_ids = {c.component_id for c in fallback_components} | {i.component_id for i in inv_bat_mapping}", ["C12"]),
    ("c06-3phase-no-sync", FE, "                while not phase_1.timestamp == phase_2.timestamp == phase_3.timestamp:", "                while False:", ["C06"]),
    ("c05-builder-mutates-operand", FE, "        builder = self._copy()\n        builder._steps.appendleft((TokenType.OPER, \"(\"))\n        builder._steps.append((TokenType.OPER, \")\"))\n        builder._steps.append((TokenType.OPER, oper))", "        builder = self\n        builder._steps.appendleft((TokenType.OPER, \"(\"))\n        builder._steps.append((TokenType.OPER, \")\"))\n        builder._steps.append((TokenType.OPER, oper))", ["C05"]),
    ("c12-meter-primary-for-subset", FGEN, ") and graph.successors(predecessor.component_id).issubset(\n                        components\n                    ):", ") and True:", ["C12"]),
    ("c06-skip-sync", FEV, "if self._first_run or len({m.result().timestamp for m in ready_metrics}) > 1:  # type: ignore[union-attr]", "if False:", ["C06"]),
    ("c19-no-catchup-loop", FS, "        while primary_fetcher_sample.timestamp > self._latest_fallback_sample.timestamp:", "        while False:", ["C19"]),
    ("c19-older-test-le", FS, "        if primary_fetcher_sample.timestamp < self._latest_fallback_sample.timestamp:\n            return None",
     "        if primary_fetcher_sample.timestamp <= self._latest_fallback_sample.timestamp:\n            return None", ["C19"]),
    ("c19-never-back-to-primary", FS, "        if self._is_value_valid(primary.value):\n            return primary\n        return fallback", "        return fallback", ["C19"]),
    ("c19-revert-except-fix", FS, "        except ReceiverError as err:\n            _logger.error(\n                \"Primary metric fetcher %s failed",
     "        except ReceiverError[int] as err:\n            _logger.error(\n                \"Primary metric fetcher %s failed", ["C19"]),
    # ---- C07 / C08
    ("c07-window-end-now", RS, "            self._window_end += self._config.resampling_period", "            self._window_end = now + self._config.resampling_period", ["C07"]),
    ("c07-first-window-one-period", RS, "            now + period * 2 - elapsed,", "            now + period - elapsed,", ["C07"]),
    ("c07-skip-missed", RS, "Timer(config.resampling_period, TriggerAllMissed())", "Timer(config.resampling_period, SkipMissedAndResync())", ["C07"]),
    ("c08-bisect-left-max", RS, "        max_index = bisect(self._buffer, timestamp, key=lambda s: s.timestamp)",
     "        max_index = bisect(self._buffer, timestamp - timedelta(microseconds=1), key=lambda s: s.timestamp)", ["C08"]),
    ("c08-drop-nan-filter", RS, "            if sample.value is not None and not sample.value.isnan():", "            if sample.value is not None:", ["C08"]),
    ("c08-resampling-period-only", RS, "        minimum_relevant_timestamp = timestamp - period * conf.max_data_age_in_periods",
     "        minimum_relevant_timestamp = timestamp - conf.resampling_period * conf.max_data_age_in_periods", ["C08"]),
    ("c08-islice-open-end", RS, "itertools.islice(self._buffer, min_index, max_index)", "itertools.islice(self._buffer, min_index, None)", ["C08"]),
    # ---- C09
    ("c09-too-old-le", RB, "            timestamp < self._timestamp_oldest\n            and self._timestamp_oldest != self._TIMESTAMP_MAX",
     "            timestamp <= self._timestamp_oldest\n            and self._timestamp_oldest != self._TIMESTAMP_MAX", ["C09"]),
    ("c09-remove-gap-no-split", RB, "            new_gap = deepcopy(gap)\n            gap.end = timestamp\n            new_gap.start = timestamp + self._sampling_period\n            self._gaps.append(new_gap)",
     "            gap.end = timestamp", ["C09"]),
    ("c09-half-up-rounding", RB, "            self._sampling_period / 2 == remainder\n            and num_samples % 2 != 0\n            or self._sampling_period / 2 < remainder",
     "            self._sampling_period / 2 <= remainder", ["C09"]),
    ("c09-cleanup-merge-gt", RB, "            elif w_2 and w_1.end >= w_2.start:", "            elif w_2 and w_1.end > w_2.start:", ["C09"]),
    ("c09-revert-window-normalise", RB, "        start = self.normalize_timestamp(start)\n        end = self.normalize_timestamp(end)\n", "", ["C09"]),
    ("c09-revert-at-gap", MW, "            if self._buffer.is_missing(timestamp):\n                return np.nan\n", "", ["C09"]),
    # ---- C10
    ("c10-swallow-cancel", ACT, "                _logger.info(\"Actor %s: Cancelled.\", self)\n                raise", "                _logger.info(\"Actor %s: Cancelled.\", self)\n                continue", ["C10"]),
    ("c10-limit-le", ACT, "self._restart_limit is None or n_restarts < self._restart_limit", "self._restart_limit is None or n_restarts <= self._restart_limit", ["C10"]),
    ("c10-start-no-guard", ACT, "        if self.is_running:\n            return\n        self._tasks.clear()", "        self._tasks.clear()", ["C10"]),
    ("c10-stop-no-wait", BGS, "        self.cancel(msg)\n        try:\n            await self.wait()", "        self.cancel(msg)\n        try:\n            await asyncio.sleep(0)", ["C10"]),
    ("c10-run-first-completed-return", RUN, "    while pending_tasks:\n        done_tasks, pending_tasks = await asyncio.wait(", "    if pending_tasks:\n        done_tasks, pending_tasks = await asyncio.wait(", ["C10"]),
    ("c10-restart-on-base-exception", ACT, "                _logger.exception(\"Actor %s: Raised a BaseException.\", self)\n                raise", "                _logger.exception(\"Actor %s: Raised a BaseException.\", self)\n                n_restarts += 1\n                continue", ["C10"]),
    ("c10-no-delay", ACT, "        if iteration > 0:\n            delay = self.RESTART_DELAY.total_seconds()", "        if iteration > 1:\n            delay = self.RESTART_DELAY.total_seconds()", ["C10"]),
    # ---- the repairs of rounds 13 / 14, reverted one by one
    ("c10-revert-wait-collects-all-rounds", SRC + "actor/_background_service.py",
     "                except BaseException as error:  # pylint: disable=broad-except\n                    exceptions.append(error)\n        if exceptions:",
     "                except BaseException as error:  # pylint: disable=broad-except\n                    exceptions.append(error)\n            if exceptions:\n                break\n        if exceptions:",
     ["C10"]),
    ("c07-revert-results-matched-with-live-dict", SRC + "timeseries/_resampling.py",
     "                    for i, source in enumerate(sources)", "                    for i, source in enumerate(self._resamplers)", ["C07"]),
    ("c16-revert-timer-from-message-timestamp", BST,
     "        stream.data_recv_timer.reset(interval=remaining)", "        stream.data_recv_timer.reset(interval=self._max_data_age)", ["C16"]),
    ("c20-revert-registry-compares-by-identity", SRC + "_internal/_channels.py",
     "        if entry.message_type != message_type:", "        if entry.message_type is not message_type:", ["C20"]),
    # ---- C14
    ("c14-pending-not-popped", PD, "self._process_request(req_id, self._pending_requests.pop(req_id))", "self._process_request(req_id, self._pending_requests[req_id])", ["C14"]),
    ("c14-keep-first-pending", PD, "                self._pending_requests[req_id] = request\n", "                self._pending_requests.setdefault(req_id, request)\n", ["C14"]),
    ("c14-drop-pending-on-failure", PD, "        except Exception:  # pylint: disable=broad-except\n            _logger.exception(\"Failed power request: %s\", request)\n",
     "        except Exception:  # pylint: disable=broad-except\n            _logger.exception(\"Failed power request: %s\", request)\n            self._pending_requests.pop(req_id, None)\n", ["C14"]),
    ("c14-always-process", PD, "            if req_id in self._processing_tasks:\n                if pending_request", "            if False:\n                if pending_request", ["C14"]),
    # ---- C15 / C17
    ("c15-failed-power-all-tasks", BM, "            if failed:\n                failed_power += distribution[inverter_id]\n                failed_batteries.update(battery_ids)",
     "            failed_power += distribution[inverter_id] if failed else 0.0\n            if failed or isinstance(aws.exception() if not aws.cancelled() else None, Exception):\n                failed_batteries.update(battery_ids)", []),
    ("c15-cancelled-not-failed", BM, "            except asyncio.exceptions.CancelledError:\n                _logger.warning(", "            except asyncio.exceptions.CancelledError:\n                failed = False\n                _logger.warning(", ["C15"]),
    ("c15-excess-omitted", BM, "                failed_components=failed_batteries,\n                excess_power=Power.from_watts(distribution.remaining_power),",
     "                failed_components=failed_batteries,\n                excess_power=Power.zero(),", ["C15"]),
    ("c15-pv-revert-target", PV, "        target_power = request.power - remaining_power\n", "        target_power = self._target_power\n", ["C15"]),
    ("c15-pv-failed-power-sign", PV, "            failed_power += allocations[component_id]", "            failed_power -= allocations[component_id]", ["C15"]),
    ("c17-get-bounds-max-min-swapped", BM, "            inclusion_upper=sum(\n                min(", "            inclusion_upper=sum(\n                max(", ["C17"]),
    ("c17-check-request-strict", BM, "in_upper_range = bounds.exclusion_upper <= power <= bounds.inclusion_upper", "in_upper_range = bounds.exclusion_upper <= power < bounds.inclusion_upper", ["C17"]),
    ("c17-calculator-sums-max", MC, "            inclusion_bounds_upper += min(\n                aggregated_bat_bounds.inclusion_upper,", "            inclusion_bounds_upper += max(\n                aggregated_bat_bounds.inclusion_upper,", ["C17"]),
    ("c17-calculator-excl-min-inverter", MC, "            exclusion_bounds_upper += max(\n                aggregated_bat_bounds.exclusion_upper,\n                sum(bound.exclusion_upper for bound in inverter_bounds),",
     "            exclusion_bounds_upper += max(\n                aggregated_bat_bounds.exclusion_upper,\n                min(bound.exclusion_upper for bound in inverter_bounds),", ["C17"]),
    # ---- C16 / C18
    ("c16-and-to-or", BST, "            self._battery.last_msg_correct and self._inverter.last_msg_correct\n", "            self._battery.last_msg_correct or self._inverter.last_msg_correct\n", ["C16"]),
    ("c16-drop-capacity-check", BST, "            and self._no_critical_error(bat_data)\n            and self._is_capacity_present(bat_data)", "            and self._no_critical_error(bat_data)", ["C16"]),
    ("c16-no-doubling", BLK, "            2 * self.last_blocking_duration, self.max_duration", "            1 * self.last_blocking_duration, self.max_duration", ["C16"]),
    ("c16-no-unblock-on-success", BST, "        if self.battery_id in result.succeeded:\n            self._blocking_status.unblock()", "        if self.battery_id in result.succeeded:\n            pass", ["C16"]),
    ("c16-send-unconditionally", BST, "        if self._last_status != current_status:\n            self._last_status = current_status", "        if True:\n            self._last_status = current_status", ["C16"]),
    ("c16-pool-uncertain-union", CST, "        if len(working) > 0:\n            return working\n        return self.uncertain.intersection(components)", "        return working | self.uncertain.intersection(components)", ["C16"]),
    ("c18-drop-clamp", MC, "            soc_scaled = min(max(soc_scaled, 0.0), 100.0)", "            soc_scaled = max(soc_scaled, 0.0)", ["C18"]),
    ("c18-raw-capacity-weight", MC, "            usable_capacity_x100 = capacity * (soc_upper_bound - soc_lower_bound)\n            if math.isclose", "            usable_capacity_x100 = capacity * 100.0\n            if math.isclose", ["C18"]),
    ("c18-include-non-working", MC, "        for battery_id in working_batteries:\n            if battery_id not in metrics_data:\n                continue\n\n            metrics = metrics_data[battery_id]\n\n            capacity = metrics.get(ComponentMetricId.CAPACITY)\n            soc_upper_bound = metrics.get(ComponentMetricId.SOC_UPPER_BOUND)\n            soc_lower_bound = metrics.get(ComponentMetricId.SOC_LOWER_BOUND)\n            soc = ",
     "        for battery_id in metrics_data:\n            if battery_id not in metrics_data:\n                continue\n\n            metrics = metrics_data[battery_id]\n\n            capacity = metrics.get(ComponentMetricId.CAPACITY)\n            soc_upper_bound = metrics.get(ComponentMetricId.SOC_UPPER_BOUND)\n            soc_lower_bound = metrics.get(ComponentMetricId.SOC_LOWER_BOUND)\n            soc = ", ["C18"]),
    # ---- C12 / C20
    ("c12-grid-formula-minus", GPF, "__PROBE__", "__PROBE__", []),
    ("c20-dedupe-removed", DS, "            if existing_request.get_channel_name() == request.get_channel_name():\n                # the requested metric is already being handled, so nothing to do.\n                return",
     "            if existing_request.get_channel_name() == request.get_channel_name() and False:\n                return", ["C20"]),
    ("c20-no-cancel-of-old-task", DS, "        if comp_id in self.comp_data_tasks:\n            self.comp_data_tasks[comp_id].cancel()\n", "", ["C20"]),
]


def run(cmd: list[str], timeout: int = 900) -> tuple[int, str]:
    p = subprocess.run(cmd, cwd="/verif", capture_output=True, text=True, timeout=timeout)
    return p.returncode, p.stdout + p.stderr


def _save(results: list) -> None:
    out_path = Path("/verif/selftest_results.json")
    prev = json.loads(out_path.read_text()) if out_path.exists() else []
    names = {r["mutation"] for r in results}
    merged = [r for r in prev if r["mutation"] not in names] + results
    out_path.write_text(json.dumps(merged, indent=1))


def main() -> int:
    args = [a for a in sys.argv[1:] if not a.startswith("--")]
    scale = "0.3"
    for a in sys.argv[1:]:
        if a.startswith("--scale="):
            scale = a.split("=", 1)[1]
    results = []
    dirty = subprocess.run(["git", "-C", str(REPO), "status", "--porcelain"], capture_output=True, text=True).stdout.strip()
    if dirty:
        print("refusing to run: /repo working tree is not clean:\n" + dirty)
        return 2
    for name, file, old, new, props in MUTATIONS:
        if old == "__PROBE__":
            continue
        if args and not any(a.lower() in name.lower() or a in props for a in args):
            continue
        path = REPO / file
        src = path.read_text()
        if src.count(old) != 1:
            results.append({"mutation": name, "status": f"pattern matched {src.count(old)} times (skipped)"})
            print(f"{name}: pattern matched {src.count(old)} times (skipped)")
            continue
        try:
            path.write_text(src.replace(old, new))
            imp = subprocess.run(["/venv/bin/python", "-c", "import frequenz.sdk.microgrid, frequenz.sdk.timeseries, frequenz.sdk.actor"],
                                 capture_output=True, text=True, env=dict(os.environ, PYTHONPATH=str(REPO / "src")))
            if imp.returncode != 0:
                results.append({"mutation": name, "status": "does not import", "err": imp.stderr[-300:]})
                print(f"{name}: does not import")
                continue
            entry = {"mutation": name, "file": file, "expected": props, "checks": {}}
            for pid in props:
                rc, out = run(["/venv/bin/python", "-m", "vf.check", pid, "--tier", "quick", "--scale", scale])
                line = [l for l in out.splitlines() if l.startswith(("VIOLATION", "HELD", "INCONCLUSIVE"))]
                wit = [l for l in out.splitlines() if l.startswith("witness:")]
                entry["checks"][pid] = {"rc": rc, "verdict": line[0][:160] if line else out[-300:],
                                        "witness": wit[0][:300] if wit else None}
                print(f"{name}: {pid} rc={rc} {'CAUGHT' if rc == 1 else 'MISSED'}")
            results.append(entry)
            _save(results)
        finally:
            subprocess.run(["git", "-C", str(REPO), "checkout", "--", file], check=True)
    _save(results)
    missed = [r["mutation"] for r in results if any(c["rc"] != 1 for c in r.get("checks", {}).values())]
    print(f"{len(results)} mutations run; missed: {missed}")
    return 0


if __name__ == "__main__":
    sys.exit(main())
