"""Generated battery / inverter data for C01, C02, C15, C17.

A *case* is plain JSON:

  {"groups": [{"bats": [{"cap","soc","lo","hi","il","el","eu","iu"}, ...],
               "invs": [{"il","el","eu","iu"}, ...]}, ...],
   "exp": 1.0, "power": 1234.5}

Component ids: batteries of group g are 100*(g+1)+j, inverters 100*(g+1)+50+j.
"""

from __future__ import annotations

import math
from datetime import datetime, timezone
from typing import Any

TS = datetime(2024, 1, 1, tzinfo=timezone.utc)


def bat_id(g: int, j: int) -> int:
    return 100 * (g + 1) + j


def inv_id(g: int, j: int) -> int:
    return 100 * (g + 1) + 50 + j


def mk_battery(cid: int, b: dict[str, float], ts: datetime = TS) -> Any:
    from frequenz.client.microgrid import (BatteryComponentState, BatteryData,
                                           BatteryRelayState)

    return BatteryData(
        component_id=cid, timestamp=ts, soc=b["soc"], soc_lower_bound=b["lo"], soc_upper_bound=b["hi"],
        capacity=b["cap"], power_inclusion_lower_bound=b["il"], power_exclusion_lower_bound=b["el"],
        power_inclusion_upper_bound=b["iu"], power_exclusion_upper_bound=b["eu"], temperature=25.0,
        relay_state=BatteryRelayState.CLOSED, component_state=BatteryComponentState.IDLE, errors=[],
    )


def mk_inverter(cid: int, i: dict[str, float], ts: datetime = TS) -> Any:
    from frequenz.client.microgrid import InverterComponentState, InverterData

    z3 = (0.0, 0.0, 0.0)
    return InverterData(
        component_id=cid, timestamp=ts, active_power=0.0, active_power_per_phase=z3, reactive_power=0.0,
        reactive_power_per_phase=z3, current_per_phase=z3, voltage_per_phase=z3,
        active_power_inclusion_lower_bound=i["il"], active_power_exclusion_lower_bound=i["el"],
        active_power_inclusion_upper_bound=i["iu"], active_power_exclusion_upper_bound=i["eu"],
        frequency=50.0, component_state=InverterComponentState.IDLE, errors=[],
    )


def build_pairs(case: dict[str, Any]) -> list[Any]:
    from frequenz.sdk.microgrid._power_distributing._distribution_algorithm import (
        AggregatedBatteryData, InvBatPair)

    pairs = []
    for g, grp in enumerate(case["groups"]):
        bats = [mk_battery(bat_id(g, j), b) for j, b in enumerate(grp["bats"])]
        invs = [mk_inverter(inv_id(g, j), i) for j, i in enumerate(grp["invs"])]
        pairs.append(InvBatPair(AggregatedBatteryData(bats), invs))
    return pairs


# ---------------------------------------------------------------- reference model
# (independent of the repo's code: computed from the JSON case only)


def group_model(grp: dict[str, Any]) -> dict[str, float]:
    """Aggregated quantities of one battery group, per the documented aggregation."""
    bats, invs = grp["bats"], grp["invs"]
    n = len(bats)
    cap = sum(b["cap"] for b in bats)
    m = {
        "cap": cap,
        "soc": sum(b["soc"] * b["cap"] for b in bats) / cap,
        "lo": sum(b["lo"] * b["cap"] for b in bats) / cap,
        "hi": sum(b["hi"] * b["cap"] for b in bats) / cap,
        "bat_il": math.fsum(b["il"] for b in bats),  # (exactly rounded sums, as the repaired code uses: order-independent)
        "bat_iu": math.fsum(b["iu"] for b in bats),
        "bat_el": min(b["el"] for b in bats) * n,
        "bat_eu": max(b["eu"] for b in bats) * n,
    }
    # consume direction (positive)
    m["min_up"] = max(m["bat_eu"], min(i["eu"] for i in invs))
    m["incl_up"] = min(sum(min(i["iu"], m["bat_iu"]) for i in invs), m["bat_iu"])
    # supply direction (magnitudes)
    m["min_dn"] = max(-m["bat_el"], min(-i["el"] for i in invs))
    m["incl_dn"] = min(sum(-max(i["il"], m["bat_il"]) for i in invs), -m["bat_il"])
    # what the pool advertises for this group (PowerBoundsCalculator semantics)
    m["adv_il"] = max(m["bat_il"], math.fsum(i["il"] for i in invs))
    m["adv_iu"] = min(m["bat_iu"], math.fsum(i["iu"] for i in invs))
    m["adv_el"] = min(m["bat_el"], math.fsum(i["el"] for i in invs))
    m["adv_eu"] = max(m["bat_eu"], math.fsum(i["eu"] for i in invs))
    m["headroom_up"] = max(0.0, m["hi"] - m["soc"])
    m["headroom_dn"] = max(0.0, m["soc"] - m["lo"])
    return m


def component_ok(c: dict[str, float]) -> bool:
    return c["il"] <= c["el"] <= 0.0 <= c["eu"] <= c["iu"]


def consistent(case: dict[str, Any]) -> bool:
    """The quantifier's domain: per-component ordering and min power <= incl bound."""
    for grp in case["groups"]:
        if not all(component_ok(b) and b["cap"] > 0 and b["lo"] <= b["hi"] for b in grp["bats"]):
            return False
        if not all(component_ok(i) for i in grp["invs"]):
            return False
        m = group_model(grp)
        if not (m["bat_il"] <= m["bat_el"] <= 0.0 <= m["bat_eu"] <= m["bat_iu"]):
            return False
        if m["min_up"] > m["incl_up"] or m["min_dn"] > m["incl_dn"]:
            return False
    return True


def advertised(case: dict[str, Any]) -> tuple[float, float, float, float]:
    ms = [group_model(g) for g in case["groups"]]
    return (math.fsum(m["adv_il"] for m in ms), math.fsum(m["adv_el"] for m in ms),
            math.fsum(m["adv_eu"] for m in ms), math.fsum(m["adv_iu"] for m in ms))


# ---------------------------------------------------------------- generators

_EXCL = [0.0, 0.0, 0.0, 50.0, 100.0, 300.0, 999.5]
_SPAN = [0.0, 100.0, 1000.0, 5000.0, 12345.6]
_CAPS = [1000.0, 5000.0, 98000.0, 1.0, 250000.0]


def _bounds(rng: Any, excl_bias: float = 1.0) -> dict[str, float]:
    def excl() -> float:
        if rng.random() < 0.15:
            return round(rng.uniform(0, 500), rng.choice([0, 1, 3]))
        return rng.choice(_EXCL) if rng.random() < excl_bias else 0.0

    def span() -> float:
        if rng.random() < 0.15:
            return round(rng.uniform(0, 8000), rng.choice([0, 1, 3]))
        return rng.choice(_SPAN)

    eu, el = excl(), -excl()
    return {"il": el - span(), "el": el, "eu": eu, "iu": eu + span()}


def gen_group(rng: Any, mode: str) -> dict[str, Any]:
    nb = rng.choice([1, 1, 1, 2, 3])
    ni = rng.choice([1, 1, 2, 3, 4]) if mode != "deficit" else rng.choice([1, 1, 1, 2])
    bats = []
    for _ in range(nb):
        lo = rng.choice([0.0, 10.0, 20.0])
        hi = rng.choice([80.0, 90.0, 100.0])
        if rng.random() < 0.05:
            hi = lo = rng.choice([20.0, 50.0])
        if mode == "deficit":
            soc = rng.choice([rng.uniform(lo, hi), lo + 0.01 * (hi - lo), hi - 0.01 * (hi - lo), rng.uniform(lo, hi)])
        elif mode == "edge":
            soc = rng.choice([lo, hi, lo, hi, rng.uniform(lo, hi), lo - 5.0, hi + 5.0])
        else:
            soc = rng.choice([lo, hi, rng.uniform(lo, hi), rng.uniform(lo, hi), rng.uniform(0.0, 100.0)])
        b = _bounds(rng)
        b.update({"cap": rng.choice(_CAPS) if rng.random() < 0.8 else round(rng.uniform(1, 1e5), 1),
                  "soc": soc, "lo": lo, "hi": hi})
        bats.append(b)
    invs = [_bounds(rng) for _ in range(ni)]
    return {"bats": bats, "invs": invs}


def choose_power(rng: Any, case: dict[str, Any]) -> tuple[float, str] | None:
    il, el, eu, iu = advertised(case)
    up = rng.random() < 0.5
    if up:
        if iu <= 0:
            return None
        lo_b, hi_b = eu, iu
    else:
        if il >= 0:
            return None
        lo_b, hi_b = -el, -il
    kind = rng.choice(["excl-edge", "incl-edge", "inside", "inside", "surplus", "just-above-excl"])
    if kind == "excl-edge":
        mag = lo_b if lo_b > 0 else 1.0
    elif kind == "incl-edge":
        mag = hi_b
    elif kind == "inside":
        mag = rng.uniform(lo_b, max(hi_b, lo_b))
    elif kind == "just-above-excl":
        mag = lo_b + rng.choice([0.001, 0.5, 1.0, 10.0])
    else:
        mag = hi_b * rng.choice([1.0000001, 1.5, 3.0]) + rng.choice([0.0, 1.0])
    if mag < lo_b or mag <= 1e-6 or not math.isfinite(mag):
        return None
    return (mag if up else -mag), kind


def gen_case(rng: Any, mode: str | None = None) -> dict[str, Any] | None:
    mode = mode or rng.choice(["plain", "plain", "deficit", "deficit", "multi"])
    ng = rng.choice([1, 2, 2, 3, 3, 4, 5]) if mode != "deficit" else rng.choice([2, 3, 4, 5])
    groups = [gen_group(rng, mode) for _ in range(ng)]
    case: dict[str, Any] = {"groups": groups, "mode": mode}
    if not consistent(case):
        return None
    case["exp"] = rng.choice([0.0, 0.5, 1.0, 1.0, 1.0, 2.0, 3.0, round(rng.uniform(0, 4), 2)])
    pk = choose_power(rng, case)
    if pk is None:
        return None
    case["power"], case["power_kind"] = pk
    return case
