"""Developer aid: which lines of each property's anchored files do the checks execute?

  python -m vf.covreport [IDs...] [--scale 0.1]

Runs the quick tier of each check with line/branch coverage of <repo>/src switched on in the
shards (VERIF_COV), and prints, per anchored file, the functions that contain never-executed lines.
Used to decide where to widen a workload; it is not one of the registered checks.
"""

from __future__ import annotations

import ast
import json
import os
import shutil
import subprocess
import sys
import tempfile
from pathlib import Path

from . import common

V = Path(__file__).resolve().parent.parent


def funcs_of(path: Path) -> list[tuple[int, int, str]]:
    tree = ast.parse(path.read_text())
    out = []

    def walk(node: ast.AST, prefix: str) -> None:
        for ch in ast.iter_child_nodes(node):
            if isinstance(ch, (ast.FunctionDef, ast.AsyncFunctionDef, ast.ClassDef)):
                name = f"{prefix}{ch.name}"
                if not isinstance(ch, ast.ClassDef):
                    out.append((ch.lineno, ch.end_lineno or ch.lineno, name))
                walk(ch, name + ".")
            else:
                walk(ch, prefix)

    walk(tree, "")
    return out


def main() -> None:
    import coverage

    args = [a for a in sys.argv[1:] if not a.startswith("--")]
    scale = "0.1"
    for a in sys.argv[1:]:
        if a.startswith("--scale"):
            scale = a.split("=")[1]
    props = {json.loads(l)["id"]: json.loads(l) for l in (V / "properties.jsonl").read_text().splitlines() if l.strip()}
    ids = args or sorted(props)
    summary = {}
    for pid in ids:
        d = Path(tempfile.mkdtemp(prefix=f"vcov-{pid}-"))
        env = dict(os.environ, VERIF_COV=str(d))
        r = subprocess.run([sys.executable, "-m", "vf.check", pid, "--tier", "quick", "--scale", scale],
                           cwd=V, env=env, capture_output=True, text=True)
        cov = coverage.Coverage(data_file=str(d / ".coverage"), config_file=False)
        cov.combine([str(d)])
        data = cov.get_data()
        print(f"== {pid} (rc={r.returncode}) {props[pid]['title']}")
        for rel in props[pid]["anchors"]["files"]:
            f = common.REPO / rel
            if not f.exists():
                print(f"   {rel}: missing")
                continue
            try:
                _, stmts, _, missing, _ = cov.analysis2(str(f))
            except Exception as exc:  # noqa: BLE001
                print(f"   {rel}: no data ({exc})")
                continue
            miss = set(missing)
            print(f"   {rel}: {len(stmts) - len(miss)}/{len(stmts)} statements executed")
            rows = []
            for lo, hi, name in funcs_of(f):
                body = [s for s in stmts if lo < s <= hi]
                m = [s for s in body if s in miss]
                if body and m:
                    rows.append((name, len(m), len(body), m))
            for name, nm, nb, m in rows:
                tag = "NEVER ENTERED" if nm == nb else f"{nm}/{nb} lines missed: {m[:12]}"
                print(f"      {name}: {tag}")
            summary.setdefault(pid, {})[rel] = [len(stmts) - len(miss), len(stmts)]
        shutil.rmtree(d, ignore_errors=True)
    print(json.dumps(summary))


if __name__ == "__main__":
    main()
