"""Regenerate DESIGN.md section 9 (seeded changes / self-test mutations and which checks catch them)."""
from __future__ import annotations

import json
import re
from pathlib import Path

V = Path("/verif")


def first_sentence(notes: str, variant: str) -> str:
    return ""


def main() -> None:
    rows = []
    for d in sorted((V / "seeded").iterdir()):
        m = json.loads((d / "meta.json").read_text())
        diff = (d / "patch.diff").read_text()
        files = sorted({l[6:].split("/")[-1] for l in diff.splitlines() if l.startswith("+++ b/")})
        det = "; ".join(f"{k}: {'CAUGHT' if v['exit'] == 1 else ('inconclusive' if v['exit'] == 2 else 'MISSED')}"
                        for k, v in m.get("detected_by", {}).items())
        kinds = []
        for k, v in m.get("detected_by", {}).items():
            w = v.get("first_witness") or ""
            mm = re.search(r'"kind": "([^"]+)"', w)
            if mm:
                kinds.append(mm.group(1))
        rows.append(f"| {d.name} | {', '.join(files)} | {det} | {', '.join(kinds)} | {m.get('history', '')} |")
    st = json.loads((V / "selftest_results.json").read_text()) if (V / "selftest_results.json").exists() else []
    srows = []
    for r in st:
        if "checks" not in r:
            srows.append(f"| {r['mutation']} | — | {r.get('status')} |")
            continue
        det = "; ".join(f"{k}: {'CAUGHT' if v['rc'] == 1 else ('inconclusive' if v['rc'] == 2 else 'MISSED')}" for k, v in r["checks"].items())
        srows.append(f"| {r['mutation']} | {r['file'].split('/')[-1]} | {det or 'not run (no property expected)'} |")
    text = ["## 9. Seeded changes and which checks catch them", "",
            "### 9.1 Changes written by independent sub-agents (`/verif/seeded/<id>-<A|B>/`)", "",
            "Each sub-agent was given only the text of one property and a scratch worktree. I re-confirmed every change "
            "myself in the scratch worktree (`python -m vf.seedtest confirm`: demo passes on the unchanged tree, the "
            "repository's 332 tests pass with the change, the demo fails with it) before keeping it, then ran the "
            "property's quick check against it (`python -m vf.seedtest evaluate`). `meta.json` in each directory records "
            "what was run and the first witness the monitor printed.", "",
            "| seeded change | file(s) touched | quick check verdict | violation kind reported first | history |",
            "|---|---|---|---|---|", *rows, "",
            "### 9.2 My own deliberate breaks (DESIGN §6, `python -m vf.selftest`, quick tier at 30 % budget)", "",
            "| mutation | file | verdict |", "|---|---|---|", *srows, ""]
    p = V / "DESIGN.md"
    s = p.read_text()
    i = s.find("## 9. Seeded changes and which checks catch them")
    if i >= 0:
        s = s[:i].rstrip() + "\n\n\n"
    else:
        s = s.rstrip() + "\n\n\n"
    p.write_text(s + "\n".join(text))
    print(len(rows), "seeded;", len(srows), "self-test mutations")


if __name__ == "__main__":
    main()
