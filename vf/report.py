"""Regenerate DESIGN.md section 9 (seeded changes / self-test mutations and which checks catch them)."""
from __future__ import annotations

import json
import re
from pathlib import Path

V = Path("/verif")


NOTES = """Notes on 9.2. The four mutations that no check reports were examined and are *not* violations of the
property they were aimed at (equivalent or irrelevant mutants, kept in the table for honesty):
`c01-greedy-without-cap` breaks only the bound (caught by C02), conservation is unaffected;
`c01-reserved-without-max` changes how the shares are split between groups, not their sum (after the
C01 repairs the remainder is computed from what was actually handed out); `c02-no-battery-clip-of-inverter-incl`
is masked by the set-level `min(sum of inverter bounds, battery bound)`; `c03-skip-adjust-exclusion` is
masked by `clamp_to_bounds`, which re-derives the overlap from the un-adjusted interval.
`c10-swallow-cancel` spins without ever yielding to the loop: it is reported as a VIOLATION through the
probe's re-invocation counter (a logical-step verdict), but the run takes minutes because every case
first has to hit the wall-clock watchdog that ends the shard.
Monitors strengthened because of this loop: C13 got overflow rounds (an `isinf` result emitted as a value
was invisible before: `c13-only-isnan`), C09 got single-slot reads at unaligned timestamps (seed C09-B),
C15 got concurrent PV requests on disjoint inverter sets (a race a seeding sub-agent noticed on the
unchanged tree; repaired, section 8.2), and every virtual-time run got a livelock detector (loop iterations
without virtual time advancing; `c19-revert-except-fix` and seed C19-B make the engine spin on a closed
stream).
"""


def first_sentence(notes: str, variant: str) -> str:
    return ""


def main() -> None:
    rows = []
    for d in sorted((V / "seeded").iterdir()):
        m = json.loads((d / "meta.json").read_text())
        diff = (d / "patch.diff").read_text()
        files = sorted({l[6:].split("/")[-1] for l in diff.splitlines() if l.startswith("+++ b/")})
        det = "; ".join(f"{k}: {'CAUGHT' if v['exit'] == 1 else ('inconclusive' if v['exit'] == 2 else 'MISSED')}"
                        for k, v in m.get("detected_by", {}).items())
        if m.get("equivalent_on_repaired_tree"):
            det = det.replace("MISSED", "unreachable on the repaired tree (see history)")
        kinds = []
        for k, v in m.get("detected_by", {}).items():
            w = v.get("first_witness") or ""
            mm = re.search(r'"kind": "([^"]+)"', w)
            if mm:
                kinds.append(mm.group(1))
        rows.append(f"| {d.name} | {', '.join(files)} | {det} | {', '.join(kinds)} | {m.get('history', '')} |")
    st = json.loads((V / "selftest_results.json").read_text()) if (V / "selftest_results.json").exists() else []
    srows = []
    for r in st:
        if "checks" not in r:
            srows.append(f"| {r['mutation']} | — | {r.get('status')} |")
            continue
        det = "; ".join(f"{k}: {'CAUGHT' if v['rc'] == 1 else ('inconclusive' if v['rc'] == 2 else 'MISSED')}" for k, v in r["checks"].items())
        srows.append(f"| {r['mutation']} | {r['file'].split('/')[-1]} | {det or 'not run (no property expected)'} |")
    rrows = []
    rdir = V / "refactors"
    if rdir.exists():
        for d in sorted(x for x in rdir.iterdir() if x.is_dir()):
            m = json.loads((d / "meta.json").read_text())
            diff = (d / "patch.diff").read_text()
            files = sorted({l[6:].split("/")[-1] for l in diff.splitlines() if l.startswith("+++ b/")})
            det = "; ".join(f"{k}: {'silent' if v['exit'] == 0 else ('ALARM' if v['exit'] == 1 else 'inconclusive')}"
                            for k, v in m.get("checks", {}).items()) or m.get("apply_error", "")[:80]
            if m.get("no_longer_applicable") or (m.get("apply_error") and m.get("checks")):
                det += " - no longer applies to the repaired tree (verdict from before the repair)"
            elif m.get("rebased"):
                det += " (re-expressed on the repaired tree)"
            rrows.append(f"| {d.name} | {', '.join(files)} | {m.get('diffstat', '')} | {det} |")
    text = ["## 9. Seeded changes and which checks catch them", "",
            "### 9.1 Changes written by independent sub-agents (`/verif/seeded/<id>-<A|B>/`)", "",
            "Each sub-agent was given only the text of one property and a scratch worktree. I re-confirmed every change "
            "myself in the scratch worktree (`python -m vf.seedtest confirm`: demo passes on the unchanged tree, the "
            "repository's 332 tests pass with the change, the demo fails with it) before keeping it, then ran the "
            "property's quick check against it (`python -m vf.seedtest evaluate`). `meta.json` in each directory records "
            "what was run and the first witness the monitor printed.", "",
            "| seeded change | file(s) touched | quick check verdict | violation kind reported first | history |",
            "|---|---|---|---|---|", *rows, "",
            "### 9.2 My own deliberate breaks (DESIGN §6, `python -m vf.selftest`, quick tier at 30 % budget)", "",
            "| mutation | file | verdict |", "|---|---|---|", *srows, "", NOTES, "",
            "### 9.3 Behaviour-preserving refactorings (`/verif/refactors/`, `python -m vf.refactest`)", "",
            "Four further sub-agents were asked for the opposite of a seeded defect: realistic refactorings of the "
            "anchored files (extracted / inlined helpers, renamed private attributes and methods, rewritten conditions, "
            "loops vs comprehensions, restructured exception handling, changed log texts) that keep the behaviour each "
            "property describes exactly as it is, with the repository's tests still passing. Every check that shares the "
            "touched files was run against each of them (quick tier, 40 % budget, scratch worktree): all must stay "
            "silent. The sub-agents' equivalence arguments are kept in `refactors/notes_<n>.md`. The harnesses reach "
            "into a few private names (documented in §8.1); a rename that hits one surfaces as *inconclusive* (harness "
            "error), not as a violation. A second round (names ending in `2`) asked for bolder patches: functions moved "
            "between class and module level, renamed private attributes that other modules read, merged dictionaries, "
            "changed container types, `match` vs if/elif. Two of those 40 first produced a wrong verdict and led to "
            "corrections of the machinery (§8.4): `C02-a2` moves the hooked split / top-up stages to module level, after "
            "which the open C02 finding could no longer be attributed and was reported as a new violation - the recording "
            "contracts now follow the functions to module level, and a known-finding predicate that lacks its hooked "
            "observation answers *undecidable* (inconclusive) instead of *not this finding*; `C19-b2` renames "
            "`MetricFetcher._fallback`, which the synchronous evaluator of the C12 harness reads - the resulting "
            "`AttributeError` was reported as an exception of the observed code, it is now a harness error "
            "(C12 is inconclusive on that patch, the only non-silent entry below). "
            "A third round (names ending in `3`, 40 patches on the tree after the round-8/9 repairs) also refactored the "
            "code *around* the anchored files - the pools, `PowerWrapper`, the data pipeline, the managers, the formula pool "
            "and generators - because the checks by then drove those as well. Two patches first made a check inconclusive "
            "and led to more robust harness code: `C11-b3` renames the wrapper's private channel attributes (the wrapper "
            "tiers of C11/C14 now find the request channel by type, through `distribution_results_fetcher()` and the public "
            "channels, instead of by private name) and `C02-b3` makes `ComponentPoolStatusTracker.__init__` keyword-only "
            "(the C16 pool tier now constructs it with keywords). `C07-b3` was re-expressed on the tree that contains the "
            "MovingWindow repair.", "",
            "| refactoring | file(s) touched | size | checks |", "|---|---|---|---|", *rrows]
    p = V / "DESIGN.md"
    s = p.read_text()
    i = s.find("## 9. Seeded changes and which checks catch them")
    if i >= 0:
        s = s[:i].rstrip() + "\n\n\n"
    else:
        s = s.rstrip() + "\n\n\n"
    p.write_text(s + "\n".join(text))
    print(len(rows), "seeded;", len(srows), "self-test mutations")


if __name__ == "__main__":
    main()
