"""Behaviour-preserving refactorings written by independent sub-agents: every check must stay silent on them.

  VERIF_REPO=<scratch worktree> python -m vf.refactest <group dir, e.g. /tmp/refac/1/_refac> [--scale 0.5]

For each refactor_<ID>_<x>.diff in the directory: apply it to $VERIF_REPO (never /repo), run the quick check of
property <ID> (and of the properties sharing its anchored files), record the exit codes in
/verif/refactors/<ID>-<x>/meta.json next to a copy of the patch, and always restore the worktree.
Exit code 1 of a check on such a patch is a false alarm of that check (or the patch is not behaviour-preserving:
read the witness before deciding).
"""

from __future__ import annotations

import json
import os
import re
import shutil
import subprocess
import sys
from pathlib import Path

V = Path(__file__).resolve().parent.parent
REPO = Path(os.environ.get("VERIF_REPO", ""))
SHARED = {"C01": ["C01", "C02", "C15", "C17", "C16"], "C02": ["C01", "C02", "C15", "C16"], "C15": ["C15", "C01", "C16"],
          "C17": ["C17", "C15", "C18"], "C14": ["C14", "C11"], "C16": ["C16", "C15"], "C18": ["C18", "C03", "C17"],
          "C03": ["C03", "C04", "C11"], "C04": ["C03", "C04", "C11"], "C11": ["C11", "C03", "C14"], "C05": ["C05", "C13", "C06"],
          "C06": ["C06", "C05", "C19"], "C13": ["C13", "C05"], "C19": ["C19", "C06", "C12"], "C12": ["C12", "C19"],
          "C07": ["C07", "C08"], "C08": ["C08", "C07"], "C09": ["C09", "C07"]}


def sh(cmd: str) -> tuple[int, str]:
    p = subprocess.run(cmd, shell=True, capture_output=True, text=True)
    return p.returncode, p.stdout + p.stderr


def main() -> int:
    if not str(REPO) or str(REPO) == "/repo":
        print("set VERIF_REPO to a scratch worktree")
        return 2
    src = Path(sys.argv[1])
    scale = next((a.split("=")[1] for a in sys.argv if a.startswith("--scale=")), "0.5")
    tag = next((a.split("=")[1] for a in sys.argv if a.startswith("--tag=")), "")
    only = [a for a in sys.argv[2:] if not a.startswith("--")]
    notes = (src / "notes.md").read_text() if (src / "notes.md").exists() else ""
    bad = 0
    for patch in sorted(src.glob("refactor_*.diff")):
        m = re.match(r"refactor_(C\d+)_(\w+)\.diff", patch.name)
        if not m or (only and f"{m.group(1)}-{m.group(2)}" not in only):
            continue
        pid, x = m.group(1), m.group(2)
        name = f"{pid}-{x}{tag}"
        d = V / "refactors" / name
        d.mkdir(parents=True, exist_ok=True)
        if patch.resolve() != (d / "patch.diff").resolve():
            shutil.copy(patch, d / "patch.diff")
        if sh(f"git -C {REPO} status --porcelain -- src tests")[1].strip():
            print("refusing: worktree not clean")
            return 2
        rc, out = sh(f"git -C {REPO} apply {patch}")
        if rc != 0:
            # the tree has moved on (repairs): try a three-way merge on the blobs the patch names
            rc, out3 = sh(f"git -C {REPO} apply --3way {patch}")
            if rc != 0:
                sh(f"git -C {REPO} reset -q --hard")
                out = out + " | 3-way: " + out3[-200:]
            else:
                sh(f"git -C {REPO} reset -q")  # keep the merged working tree, unstage
        meta = {"property": pid, "variant": x, "source": "independent sub-agent asked for behaviour-preserving refactorings",
                "diffstat": sh(f"git -C {REPO} diff --shortstat")[1].strip(), "checks": {}}
        if "--own" in sys.argv and (d / "meta.json").exists():
            # a re-run of the property's own check only: keep what is recorded about the other checks
            meta["checks"] = json.loads((d / "meta.json").read_text()).get("checks", {})
        if rc != 0:
            meta["apply_error"] = out[-300:]
            print(name, "patch does not apply")
        else:
            try:
                for cid in ([pid] if "--own" in sys.argv else SHARED.get(pid, [pid])):
                    rc, out = sh(f"cd {V} && /venv/bin/python -m vf.check {cid} --tier quick --scale {scale}")
                    verdict = [l for l in out.splitlines() if l.startswith(("VIOLATION", "HELD", "INCONCLUSIVE"))]
                    wit = [l for l in out.splitlines() if l.startswith("witness:")]
                    meta["checks"][cid] = {"exit": rc, "verdict": verdict[0][:160] if verdict else out[-300:],
                                           "first_witness": wit[0][:600] if wit else None}
                    print(name, cid, "rc=", rc, {0: "silent", 1: "ALARM", 2: "inconclusive"}.get(rc, "?"))
                    bad += rc != 0
            finally:
                sh(f"git -C {REPO} checkout -- src tests")
                sh(f"git -C {REPO} clean -fdq -- src tests")
        (d / "meta.json").write_text(json.dumps(meta, indent=1))
    if notes:
        (V / "refactors" / f"notes_{src.parent.name}{tag}.md").write_text(notes)
    return 1 if bad else 0


if __name__ == "__main__":
    sys.exit(main())
