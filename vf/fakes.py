"""Fakes at the system boundary (harness side, no repo edits): microgrid API client and
connection manager. The anchored code always runs unmodified on top of these."""

from __future__ import annotations

import asyncio
from types import SimpleNamespace
from typing import Any

OUTCOMES = ["ok", "range", "client", "exc", "hang"]


class FakeApi:
    """Fake microgrid API client.

    * ``*_data(id)`` return receivers of Broadcast channels the harness feeds via ``feed``.
    * ``set_power(id, w)`` records the call and then follows the scripted outcome for that
      component: ok / range (OperationOutOfRange) / client (ApiClientError) / exc (unexpected
      Exception) / hang (never replies; the caller's timeout path), after ``latency`` seconds.
    """

    def __init__(self, components: list[Any] | None = None) -> None:
        self.comps = components or []
        self.channels: dict[int, Any] = {}
        self.calls: list[dict[str, Any]] = []
        self.outcome: dict[int, str] = {}
        self.latency: dict[int, float] = {}
        self.cancelled: list[int] = []
        self.rx_limit = 50
        self.send_delay = 0.0

    def chan(self, cid: int) -> Any:
        from frequenz.channels import Broadcast

        if cid not in self.channels:
            self.channels[cid] = Broadcast(name=f"fakeapi-{cid}", resend_latest=True)
        return self.channels[cid]

    async def feed(self, cid: int, msg: Any) -> None:
        await self.chan(cid).new_sender().send(msg)

    async def components(self) -> Any:
        return set(self.comps)

    async def _rx(self, cid: int, maxsize: int = 0) -> Any:
        return self.chan(cid).new_receiver(limit=maxsize or self.rx_limit)

    async def battery_data(self, cid: int, maxsize: int = 0) -> Any:
        return await self._rx(cid, maxsize)

    async def inverter_data(self, cid: int, maxsize: int = 0) -> Any:
        return await self._rx(cid, maxsize)

    async def meter_data(self, cid: int, maxsize: int = 0) -> Any:
        return await self._rx(cid, maxsize)

    async def ev_charger_data(self, cid: int, maxsize: int = 0) -> Any:
        return await self._rx(cid, maxsize)

    async def set_power(self, cid: int, watts: float) -> None:
        import grpc
        from frequenz.client.microgrid import ApiClientError, OperationOutOfRange
        from grpc.aio import AioRpcError, Metadata

        loop = asyncio.get_event_loop()
        oc = self.outcome.get(cid, "ok")
        call = {"t": loop.time(), "id": cid, "watts": float(watts), "outcome": oc, "cancelled": False}
        self.calls.append(call)
        try:
            lat = self.latency.get(cid, 0.0)
            if lat > 0:
                await asyncio.sleep(lat)
            if oc == "ok":
                return
            if oc == "range":
                err = AioRpcError(grpc.StatusCode.OUT_OF_RANGE, Metadata(), Metadata(), "out of range", "dbg")
                raise OperationOutOfRange(server_url="fake://", operation="set_power", grpc_error=err)
            if oc == "client":
                raise ApiClientError(server_url="fake://", operation="set_power", description="boom", retryable=False)
            if oc == "exc":
                raise RuntimeError("unexpected failure in set_power")
            if oc == "hang":
                await asyncio.sleep(1e9)
        except asyncio.CancelledError:
            call["cancelled"] = True
            raise


def install_connection_manager(components: list[Any], connections: list[Any], api: FakeApi | None = None) -> FakeApi:
    from frequenz.sdk.microgrid import connection_manager
    from frequenz.sdk.microgrid.component_graph import _MicrogridComponentGraph

    graph = _MicrogridComponentGraph(set(components), set(connections))
    api = api or FakeApi(list(components))
    api.comps = list(components)
    connection_manager._CONNECTION_MANAGER = SimpleNamespace(  # pylint: disable=protected-access
        component_graph=graph, api_client=api, server_url="fake://", location=None, microgrid_id=1)
    return api


def battery_topology(groups: list[tuple[list[int], list[int]]]) -> tuple[list[Any], list[Any]]:
    """Grid(1) - Meter(2) - [inverters] - [batteries]; every inverter of a group is connected
    to every battery of the group."""
    from frequenz.client.microgrid import (Component, ComponentCategory, Connection,
                                           InverterType)

    comps = [Component(1, ComponentCategory.GRID), Component(2, ComponentCategory.METER)]
    conns = [Connection(1, 2)]
    for bats, invs in groups:
        for i in invs:
            comps.append(Component(i, ComponentCategory.INVERTER, InverterType.BATTERY))
            conns.append(Connection(2, i))
        for b in bats:
            comps.append(Component(b, ComponentCategory.BATTERY))
            for i in invs:
                conns.append(Connection(i, b))
    return comps, conns


def pv_topology(inv_ids: list[int]) -> tuple[list[Any], list[Any]]:
    from frequenz.client.microgrid import (Component, ComponentCategory, Connection,
                                           InverterType)

    comps = [Component(1, ComponentCategory.GRID), Component(2, ComponentCategory.METER)]
    conns = [Connection(1, 2)]
    for i in inv_ids:
        comps.append(Component(i, ComponentCategory.INVERTER, InverterType.SOLAR))
        conns.append(Connection(2, i))
    return comps, conns
