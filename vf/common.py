"""Common machinery: bootstrap, recorder, verdicts, evidence, known findings.

Every property module exposes

    ID: str
    RULE: str                      # how cases are generated / what is non-trivial
    REQUIRED_BUCKETS: list[str]    # coverage buckets that must be non-empty
    FINDINGS: dict[str, callable]  # mechanism name -> predicate(case, violation) -> bool
    def budget(tier) -> dict       # {"shards": n, "cases": n_per_shard, ...}
    def gen(rng, tier, i) -> case  # JSON-able dict
    def check(case, rec) -> None   # runs the REAL code, reports to rec

``check`` is a deterministic function of (case, PYTHONHASHSEED), so a replay
file {property, case, hashseed} re-runs a witness exactly.
"""

from __future__ import annotations

import hashlib
import json
import os
import sys
import time
import traceback
from collections import Counter
from pathlib import Path
from typing import Any, Callable

VERIF = Path(__file__).resolve().parent.parent
REPO = Path(os.environ.get("VERIF_REPO", "/repo"))
# evidence is about /repo: runs against a scratch worktree (seeded changes, refactorings) must not overwrite it
EVIDENCE_DIR = VERIF / "evidence" if str(REPO) == "/repo" else VERIF / ".work" / "evidence-of-scratch-worktrees"
REPLAY_DIR = VERIF / "replays"
WORK_DIR = VERIF / ".work"
KNOWN_FINDINGS = VERIF / "known_findings.json"
GUARD = "FREQUENZ_SDK_VERIF"

EXIT_HELD, EXIT_VIOLATION, EXIT_INCONCLUSIVE = 0, 1, 2


class HarnessError(Exception):
    """Something in the harness (not the code under observation) went wrong."""


def bootstrap() -> None:
    """Make the repo's working tree + test helpers importable; pin to /repo."""
    os.environ.setdefault("PYTHONDONTWRITEBYTECODE", "1")
    sys.dont_write_bytecode = True
    os.environ[GUARD] = "1"
    deps = VERIF / ".deps"
    if str(REPO) not in sys.path:
        sys.path.insert(0, str(REPO))
    if str(deps) not in sys.path:
        sys.path.append(str(deps))  # last: never shadow /venv's own packages
    if "/verif/.deps" not in sys.path:
        sys.path.append("/verif/.deps")  # a snapshot of /verif (vp run) can use the installed copy
    src = str(REPO / "src")
    if src not in sys.path:
        sys.path.insert(0, src)
    import warnings

    warnings.filterwarnings("ignore", category=DeprecationWarning)
    import logging

    logging.disable(logging.CRITICAL)
    import frequenz.sdk as sdk  # noqa

    where = Path(sdk.__file__).resolve()
    if not str(where).startswith(str((REPO / "src").resolve())):
        raise HarnessError(f"frequenz.sdk imported from {where}, not {REPO}/src")


def ensure_icontract() -> None:
    """icontract comes from the offline wheelhouse (MANIFEST.setup_cmd); install it lazily if absent."""
    try:
        import icontract  # noqa: F401
        return
    except ImportError:
        pass
    import subprocess

    target = VERIF / ".deps"
    target.mkdir(exist_ok=True)
    subprocess.run(["/venv/bin/pip", "install", "-q", "--no-index", "--find-links", "/opt/veriftools/wheels",
                    "--target", str(target), "icontract"], check=False, capture_output=True)
    import importlib

    importlib.invalidate_caches()


def fresh_nan() -> float:
    """A NaN that is *not* the math.nan singleton (as decoded from the wire or produced by arithmetic):
    code that tests `x is math.nan` instead of math.isnan(x) must not get away with it."""
    return float("nan")


def canon(obj: Any) -> str:
    return json.dumps(obj, sort_keys=True, separators=(",", ":"), default=_default)


def _default(o: Any) -> Any:
    if isinstance(o, (set, frozenset)):
        return sorted(o)
    if hasattr(o, "isoformat"):
        return o.isoformat()
    return repr(o)


def sig64(obj: Any) -> int:
    return int.from_bytes(hashlib.sha1(canon(obj).encode()).digest()[:8], "big")


def jsonable(obj: Any) -> Any:
    return json.loads(canon(obj))


class Recorder:
    """Accumulates what the monitors observed in one worker (one shard)."""

    MAX_SAMPLES = 6
    MAX_VIOL = 12

    def __init__(self, prop: Any, tier: str, seed: int, hashseed: str):
        self.prop = prop
        self.tier = tier
        self.seed = seed
        self.hashseed = hashseed
        self.evaluations = 0
        self.sigs: set[int] = set()
        self.nontrivial_sigs: set[int] = set()
        self.buckets: Counter[str] = Counter()
        self.counters: Counter[str] = Counter()
        self.samples: list[Any] = []
        self.bucket_samples: dict[str, Any] = {}
        self.violations: list[dict[str, Any]] = []  # unlisted
        self.n_violations = 0
        self.known: dict[str, dict[str, Any]] = {}  # mechanism -> {count, witness}
        self.inconclusive: list[str] = []
        self.observations: Counter[str] = Counter()
        # per-case state
        self._case: Any = None
        self._case_nontrivial = False
        self._case_buckets: set[str] = set()
        self._open_findings = load_open_findings(prop.ID)

    # ---- per case
    def begin(self, case: Any) -> None:
        self._case = case
        self._case_nontrivial = False
        self._case_buckets = set()
        self._case_summary: Any = None

    def end(self) -> None:
        self.evaluations += 1
        s = sig64(self._case)
        self.sigs.add(s)
        if self._case_nontrivial:
            self.nontrivial_sigs.add(s)
        sample = None
        for b in self._case_buckets:
            if b not in self.bucket_samples:
                if sample is None:
                    sample = self._sample()
                self.bucket_samples[b] = sample
        if len(self.samples) < self.MAX_SAMPLES and self._case_nontrivial:
            self.samples.append(sample if sample is not None else self._sample())
        self._case = None

    def _sample(self) -> Any:
        d = {"case": jsonable(self._case)}
        if self._case_summary is not None:
            d["observed"] = jsonable(self._case_summary)
        return d

    def observed(self, summary: Any) -> None:
        """What the monitor saw for this case (goes into evidence samples)."""
        self._case_summary = summary

    def nontrivial(self, flag: bool = True) -> None:
        if flag:
            self._case_nontrivial = True

    def bucket(self, name: str, n: int = 1) -> None:
        self.buckets[name] += n
        self._case_buckets.add(name)

    def count(self, name: str, n: int = 1) -> None:
        self.counters[name] += n

    def observe(self, name: str, n: int = 1) -> None:
        """Out-of-domain observation, reported but never a verdict."""
        self.observations[name] += n

    def harness_problem(self, reason: str) -> None:
        if len(self.inconclusive) < 20:
            self.inconclusive.append(reason)
        self.counters["harness_problems"] += 1

    def violation(self, kind: str, detail: Any, case: Any = None) -> None:
        """Report a refuting observation. Classified against open known findings."""
        case = self._case if case is None else case
        v = {"kind": kind, "detail": jsonable(detail)}
        self.counters["violating_witnesses"] += 1
        for mech in self._open_findings:
            pred = self.prop.FINDINGS.get(mech)
            if pred is None:
                continue
            try:
                hit = pred(case, v)
            except Exception:  # a predicate must never hide a violation
                hit = False
            if hit is None:
                # the predicate cannot be evaluated: the observation it needs (a hooked stage record) is not available
                # on this tree, e.g. after a refactoring moved the hooked function. The witness can then neither be
                # attributed to the listed finding nor be called a new violation: inconclusive, three-valued verdict
                self.harness_problem(f"witness of kind {kind!r} could not be classified against known finding "
                                     f"{mech!r}: the hooked observation it needs is missing on this tree")
                self.counters["unclassifiable_witnesses"] += 1
                return
            if hit:
                k = self.known.setdefault(mech, {"count": 0, "witness": None})
                k["count"] += 1
                if k["witness"] is None:
                    k["witness"] = {"case": jsonable(case), "violation": v}
                return
        self.n_violations += 1
        if len(self.violations) < self.MAX_VIOL:
            self.violations.append({"case": jsonable(case), "violation": v})

    # ---- (de)serialise for shard -> parent
    def dump(self) -> dict[str, Any]:
        return {
            "evaluations": self.evaluations,
            "sigs": sorted(self.sigs),
            "nontrivial_sigs": sorted(self.nontrivial_sigs),
            "buckets": dict(self.buckets),
            "counters": dict(self.counters),
            "samples": self.samples,
            "bucket_samples": self.bucket_samples,
            "violations": self.violations,
            "n_violations": self.n_violations,
            "known": self.known,
            "inconclusive": self.inconclusive,
            "observations": dict(self.observations),
            "seed": self.seed,
            "hashseed": self.hashseed,
        }


def load_findings() -> list[dict[str, Any]]:
    if not KNOWN_FINDINGS.exists():
        return []
    return json.loads(KNOWN_FINDINGS.read_text())["findings"]


def load_open_findings(pid: str) -> list[str]:
    return [
        f["mechanism"]
        for f in load_findings()
        if f["property"] == pid and f.get("status") == "open"
    ]


def finding_desc(pid: str, mech: str) -> str:
    for f in load_findings():
        if f["property"] == pid and f["mechanism"] == mech:
            return f.get("what_fails", "")
    return ""


def run_cases(prop: Any, rec: Recorder, rng: Any, n: int, deadline: float) -> None:
    """The worker loop: generate and check n cases (watchdog: deadline)."""
    for i in range(n):
        if time.monotonic() > deadline:
            rec.harness_problem(f"wall-clock watchdog hit after {i}/{n} cases")
            break
        case = prop.gen(rng, rec.tier, i)
        if case is None:
            rec.count("generator_rejects")
            continue
        run_one(prop, rec, case)
        if _ABORT.get("timeouts", 0) >= 2:
            # two cases of this shard already ran into the 45 s wall-clock watchdog: do not spend the whole budget
            # waiting; what was observed so far is reported (the watchdog firings themselves stay inconclusive)
            rec.count("shard_stopped_early(after 2 wall-clock watchdog firings)")
            break
        if _ABORT.get("nonterminating", 0) >= 3:
            # every such case costs seconds of CPU; the verdict (violation) is settled, the shard need not go on
            rec.count("shard_stopped_early(after 3 non-termination verdicts)")
            break


class CaseTimeout(BaseException):
    """Wall-clock watchdog of one case fired (inconclusive, never a verdict)."""


class CaseCpuExhausted(BaseException):
    """One case consumed CASE_CPU_BUDGET_S seconds of *CPU time* of this process (ITIMER_VIRTUAL: independent of
    machine load, unlike the wall clock). `where` is the innermost frame that belongs to the code under observation
    or to the harness, whichever is met first walking outwards."""

    def __init__(self, where: dict[str, Any]) -> None:
        super().__init__(where)
        self.where = where


CASE_CPU_BUDGET_S = 30  # cases normally need milliseconds to a few seconds of CPU
CASE_WATCHDOG_S = 45
_ABORT: dict[str, Any] = {"rec": None, "out": None, "fired": 0}


def _alarm(signum: int, frame: Any) -> None:
    """First firing: raise inside whatever is running (a BaseException, so ordinary handlers of the code
    under observation do not swallow it). If the case still does not end (a non-yielding spin that catches
    even that), the second firing dumps what was observed so far and ends the shard: inconclusive."""
    import signal

    _ABORT["fired"] += 1
    rec = _ABORT["rec"]
    if _ABORT["fired"] >= 2 and rec is not None:
        rec.harness_problem(f"case did not end {2 * CASE_WATCHDOG_S} s after start (non-yielding spin?); shard aborted")
        if _ABORT["out"]:
            Path(_ABORT["out"]).write_text(json.dumps(rec.dump()))
        os._exit(0)
    signal.alarm(CASE_WATCHDOG_S)
    raise CaseTimeout(f"{CASE_WATCHDOG_S} s")


def _cpu_alarm(signum: int, frame: Any) -> None:
    """CPU-time budget of one case used up: attribute it to the code that is executing."""
    import signal

    signal.setitimer(signal.ITIMER_VIRTUAL, 0)
    repo_src = str((REPO / "src").resolve())
    harness = str(VERIF.resolve())
    where = {"owner": "unknown", "function": None, "file": None, "line": None}
    f = frame
    while f is not None:
        fn = str(Path(f.f_code.co_filename).resolve())
        if fn.startswith(repo_src):
            where = {"owner": "observed-code", "function": f.f_code.co_qualname if hasattr(f.f_code, "co_qualname") else f.f_code.co_name,
                     "file": fn[len(repo_src) + 1:], "line": f.f_lineno}
            break
        if fn.startswith(harness):
            where = {"owner": "harness", "function": f.f_code.co_name, "file": fn, "line": f.f_lineno}
            break
        f = f.f_back
    raise CaseCpuExhausted(where)


def run_one(prop: Any, rec: Recorder, case: Any) -> None:
    import signal

    from .vloop import Livelock

    rec.begin(case)
    _ABORT["rec"], _ABORT["fired"] = rec, 0
    _ABORT["last_progress"] = time.monotonic()
    if _ABORT.get("out") and _ABORT["last_progress"] - _ABORT.get("hb_t", 0.0) > 1.0:
        # heartbeat for the parent: a shard that spins where neither signal handlers nor its own guardian thread
        # get a turn (e.g. inside a finaliser run by the garbage collector) is ended from outside
        _ABORT["hb_t"] = _ABORT["last_progress"]
        try:
            Path(str(_ABORT["out"]) + ".hb").touch()
        except OSError:
            pass
    signal.signal(signal.SIGALRM, _alarm)
    signal.alarm(CASE_WATCHDOG_S)
    signal.signal(signal.SIGVTALRM, _cpu_alarm)
    signal.setitimer(signal.ITIMER_VIRTUAL, CASE_CPU_BUDGET_S)
    try:
        prop.check(case, rec)
    except CaseCpuExhausted as e:
        if e.where["owner"] == "observed-code":
            # a synchronous loop in the code under observation that does not end: decided on CPU time consumed
            # inside that code (not on the wall clock), so machine load cannot produce it
            rec.violation("observed-code-does-not-terminate", {"cpu_seconds_in_one_case": CASE_CPU_BUDGET_S, **e.where})
            _ABORT["nonterminating"] = _ABORT.get("nonterminating", 0) + 1
        else:
            rec.harness_problem(f"case used {CASE_CPU_BUDGET_S} s of CPU outside the observed code: {e.where}")
    except Livelock as e:
        # logical-step verdict: the code under observation spins at one virtual instant
        rec.violation("livelock-in-observed-code", {"detail": str(e)})
        _ABORT["nonterminating"] = _ABORT.get("nonterminating", 0) + 1
    except HarnessError as e:
        rec.harness_problem(f"HarnessError: {e}")
    except AttributedError as e:
        rec.violation("exception-escaped", {"where": e.where, **exc_info(e.exc)})
    except CaseTimeout as e:
        rec.harness_problem(f"case exceeded its wall-clock watchdog: {e}")
        _ABORT["timeouts"] = _ABORT.get("timeouts", 0) + 1
    except Exception as e:  # harness bug, or an exception escaping the repo's code
        if raised_in_repo(e):
            # DESIGN 2.5: an undocumented exception escaping the observed code on an
            # in-domain input refutes the property whose observable it prevents.
            rec.violation("exception-escaped", exc_info(e))
        else:
            tb = traceback.format_exc()
            rec.harness_problem(f"unattributed {type(e).__name__}: {e} :: {tb[-1500:]}")
    finally:
        signal.alarm(0)
        signal.setitimer(signal.ITIMER_VIRTUAL, 0)
        _ABORT["last_progress"] = time.monotonic()
    rec.end()


def raised_in_repo(e: BaseException) -> bool:
    """True iff the innermost frame of the traceback is inside /repo/src."""
    tb = e.__traceback__
    last = None
    while tb is not None:
        last = tb
        tb = tb.tb_next
    if last is None:
        return False
    fn = last.tb_frame.f_code.co_filename
    return str(Path(fn).resolve()).startswith(str((REPO / "src").resolve()))


def write_replay(pid: str, payload: dict[str, Any]) -> str:
    REPLAY_DIR.mkdir(exist_ok=True)
    h = hashlib.sha1(canon(payload).encode()).hexdigest()[:12]
    p = REPLAY_DIR / f"{pid}-{h}.json"
    p.write_text(json.dumps(payload, indent=1, sort_keys=True, default=_default))
    return str(p)


def tol(scale: float, rel: float = 1e-6) -> float:
    return rel * max(1.0, abs(scale))


class AttributedError(Exception):
    """Raised by harness helpers to carry an exception that escaped the code
    under observation on an in-domain input."""

    def __init__(self, where: str, exc: BaseException):
        super().__init__(f"{where}: {type(exc).__name__}: {exc}")
        self.where = where
        self.exc = exc


def exc_info(e: BaseException) -> dict[str, Any]:
    return {
        "type": type(e).__name__,
        "msg": str(e)[:300],
        "tb": "".join(traceback.format_exception(type(e), e, e.__traceback__))[-1200:],
    }
