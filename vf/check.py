"""CLI: python -m vf.check <ID> --tier quick|thorough [--replay FILE]

Parent mode shards the work over subprocesses (each with a fixed
PYTHONHASHSEED, swept over shards), merges what the monitors observed, writes
/verif/evidence/<ID>.json and prints the verdict:

  exit 0  HELD property=<id> ...            (+ KNOWN-FINDING: lines)
  exit 1  VIOLATION property=<id> replay=<path>
  exit 2  INCONCLUSIVE property=<id> reason=...
"""

from __future__ import annotations

import argparse
import importlib
import json
import os
import random
import subprocess
import sys
import time
from collections import Counter
from pathlib import Path
from typing import Any

from . import common
from .common import (
    EVIDENCE_DIR,
    EXIT_HELD,
    EXIT_INCONCLUSIVE,
    EXIT_VIOLATION,
    VERIF,
    WORK_DIR,
    Recorder,
)


def load_prop(pid: str) -> Any:
    return importlib.import_module(f"vf.props.{pid.lower()}")


def _start_coverage() -> None:
    """Developer aid (vf.covreport): line coverage of the code under test by one shard."""
    covdir = os.environ.get("VERIF_COV")
    if not covdir:
        return
    import atexit

    import coverage

    cov = coverage.Coverage(data_file=str(Path(covdir) / ".coverage"), data_suffix=True, branch=True,
                            source=[str(common.REPO / "src")], config_file=False)
    cov.start()

    def _save() -> None:
        cov.stop()
        cov.save()

    atexit.register(_save)


def _start_guardian(rec: Any, out: str) -> None:
    """A daemon thread that ends the shard when it is orphaned (parent gone) or when no case has started or finished
    for GUARD_S seconds - a non-yielding spin *between* cases (e.g. in a coroutine finalised by the garbage collector)
    is outside the per-case watchdogs. What was observed so far is dumped; the stall itself is inconclusive."""
    import threading

    ppid = os.getppid()
    common._ABORT["last_progress"] = time.monotonic()  # noqa: SLF001

    def guard() -> None:
        while True:
            time.sleep(5)
            if os.getppid() != ppid:
                os._exit(3)
            idle = time.monotonic() - common._ABORT.get("last_progress", 0.0)  # noqa: SLF001
            if idle > GUARD_S:
                try:
                    rec.harness_problem(f"no case started or finished for {GUARD_S} s (spin outside a case?); shard aborted")
                    Path(out).write_text(json.dumps(rec.dump()))
                finally:
                    os._exit(0)

    threading.Thread(target=guard, daemon=True, name="vf-guardian").start()


GUARD_S = 150
STALL_S = 240  # parent side: no case started in a shard for this long -> the shard is killed (inconclusive for it)


def worker(args: argparse.Namespace) -> int:
    common.bootstrap()
    _start_coverage()
    prop = load_prop(args.id)
    rec = Recorder(prop, args.tier, args.seed, os.environ.get("PYTHONHASHSEED", "?"))
    rng = random.Random(f"{args.id}/{args.seed}")
    deadline = time.monotonic() + args.watchdog
    common._ABORT["out"] = args.out  # noqa: SLF001  (where an aborted shard dumps what it observed)
    _start_guardian(rec, args.out)
    if hasattr(prop, "run_shard"):
        prop.run_shard(rec, rng, args.cases, args.shard_index, deadline)
    else:
        common.run_cases(prop, rec, rng, args.cases, deadline)
    Path(args.out).write_text(json.dumps(rec.dump()))
    return 0


def replay(args: argparse.Namespace) -> int:
    payload = json.loads(Path(args.replay).read_text())
    want = str(payload.get("hashseed", "0"))
    if os.environ.get("PYTHONHASHSEED") != want:
        env = dict(os.environ, PYTHONHASHSEED=want)
        return subprocess.call([sys.executable, "-m", "vf.check", *sys.argv[1:]], env=env, cwd=VERIF)
    common.bootstrap()
    prop = load_prop(payload["property"])
    rec = Recorder(prop, "quick", 0, want)
    common.run_one(prop, rec, payload["case"])
    d = rec.dump()
    print(json.dumps({k: d[k] for k in ("violations", "known", "inconclusive", "buckets", "counters", "samples")}, indent=1))
    if rec.n_violations:
        print(f"VIOLATION property={prop.ID} replay={args.replay}")
        return EXIT_VIOLATION
    for mech, k in rec.known.items():
        print(f"KNOWN-FINDING: property={prop.ID} {mech}: {common.finding_desc(prop.ID, mech)}")
    print(f"HELD property={prop.ID} (replayed case)")
    return EXIT_HELD


def parent(args: argparse.Namespace) -> int:
    t0 = time.monotonic()
    pid = args.id
    base_seed = int(os.environ.get("VERIF_SEED", "0") or 0) if args.seed is None else args.seed
    common.bootstrap()
    prop = load_prop(pid)
    budget = prop.budget(args.tier)
    if args.scale != 1.0:
        budget = dict(budget, cases=max(1, int(budget["cases"] * args.scale)))
    shards = budget["shards"]
    hashseeds = budget.get("hashseeds", [0, 1, 2, 3])
    watchdog = budget.get("watchdog_s", 900 if args.tier == "quick" else 3600)
    WORK_DIR.mkdir(exist_ok=True)
    procs = []
    maxpar = budget.get("parallel", min(16, os.cpu_count() or 4))
    pending = list(range(shards))
    results: list[dict[str, Any]] = []
    problems: list[str] = []
    running: list[tuple[int, subprocess.Popen, Path, float]] = []

    def launch(i: int) -> None:
        out = WORK_DIR / f"{pid}-{args.tier}-{os.getpid()}-{i}.json"
        if out.exists():
            out.unlink()
        Path(str(out) + ".hb").unlink(missing_ok=True)
        env = dict(os.environ)
        env["PYTHONHASHSEED"] = str(hashseeds[(i + base_seed) % len(hashseeds)])
        env["PYTHONDONTWRITEBYTECODE"] = "1"
        cmd = [
            sys.executable, "-m", "vf.check", pid, "--tier", args.tier, "--worker",
            "--seed", str(base_seed * 1000 + i), "--cases", str(budget["cases"]),
            "--shard-index", str(i), "--out", str(out), "--watchdog", str(watchdog),
        ]
        log = open(WORK_DIR / f"{pid}-{args.tier}-{os.getpid()}-{i}.log", "w")
        p = subprocess.Popen(cmd, env=env, cwd=VERIF, stdout=log, stderr=subprocess.STDOUT)
        running.append((i, p, out, time.monotonic()))

    while pending or running:
        while pending and len(running) < maxpar:
            launch(pending.pop(0))
        time.sleep(0.05)
        for item in list(running):
            i, p, out, started = item
            rc = p.poll()
            if rc is None:
                hb = Path(str(out) + ".hb")
                stalled = (time.time() - hb.stat().st_mtime) if hb.exists() else (time.monotonic() - started)
                if time.monotonic() - started > watchdog + 60:
                    p.kill()
                    running.remove(item)
                    problems.append(f"shard {i} killed by wall-clock watchdog")
                elif stalled > STALL_S:
                    p.kill()
                    running.remove(item)
                    hb.unlink(missing_ok=True)
                    problems.append(f"shard {i} made no progress for {STALL_S} s (spin outside the reach of its own watchdogs); killed")
                continue
            running.remove(item)
            logp = WORK_DIR / f"{pid}-{args.tier}-{os.getpid()}-{i}.log"
            if rc != 0 or not out.exists():
                tail = logp.read_text()[-1500:] if logp.exists() else ""
                problems.append(f"shard {i} exited {rc}: {tail}")
            else:
                results.append(json.loads(out.read_text()))
                out.unlink()
                Path(str(out) + ".hb").unlink(missing_ok=True)
                logp.unlink(missing_ok=True)

    return conclude(prop, args.tier, base_seed, budget, results, problems, t0)


def conclude(prop: Any, tier: str, seed: int, budget: dict[str, Any], results: list[dict[str, Any]],
             problems: list[str], t0: float) -> int:
    pid = prop.ID
    evaluations = sum(r["evaluations"] for r in results)
    sigs: set[int] = set()
    nsigs: set[int] = set()
    buckets: Counter[str] = Counter()
    counters: Counter[str] = Counter()
    observations: Counter[str] = Counter()
    samples: list[Any] = []
    bucket_samples: dict[str, Any] = {}
    violations: list[Any] = []
    n_viol = 0
    known: dict[str, dict[str, Any]] = {}
    for r in results:
        sigs.update(r["sigs"])
        nsigs.update(r["nontrivial_sigs"])
        buckets.update(r["buckets"])
        counters.update(r["counters"])
        observations.update(r["observations"])
        for s in r["samples"]:
            if len(samples) < 4:
                samples.append(s)
        for b, s in r["bucket_samples"].items():
            bucket_samples.setdefault(b, s)
        for v in r["violations"]:
            v = dict(v, hashseed=r["hashseed"], shard_seed=r["seed"])
            violations.append(v)
        n_viol += r["n_violations"]
        for mech, k in r["known"].items():
            kk = known.setdefault(mech, {"count": 0, "witness": None, "hashseed": r["hashseed"]})
            kk["count"] += k["count"]
            if kk["witness"] is None:
                kk["witness"] = k["witness"]
        for reason in r["inconclusive"]:
            problems.append(reason)

    required = list(getattr(prop, "REQUIRED_BUCKETS", []))
    empty = [b for b in required if buckets.get(b, 0) == 0]
    if results and empty:
        problems.append("coverage buckets never hit: " + ",".join(empty))
    for c in getattr(prop, "REQUIRED_COUNTERS", []):
        if results and counters.get(c, 0) == 0:
            problems.append(f"monitor counter '{c}' is zero (monitor never reached)")
    if len(nsigs) < 2:
        problems.append("fewer than 2 distinct non-trivial cases observed")

    # one sample per bucket (bounded) + first few plain samples
    for b in sorted(bucket_samples):
        if len(samples) < 10:
            samples.append({"bucket": b, **bucket_samples[b]})

    replay_paths = []
    for v in violations[:5]:
        replay_paths.append(common.write_replay(pid, {"property": pid, "case": v["case"], "hashseed": v["hashseed"],
                                                       "tier": tier, "violation": v["violation"]}))
    for mech, k in known.items():
        common.write_replay(pid, {"property": pid, "case": k["witness"]["case"], "hashseed": k["hashseed"],
                                  "tier": tier, "violation": k["witness"]["violation"], "known_finding": mech})

    wall = time.monotonic() - t0
    verdict = "violated" if n_viol else ("inconclusive" if problems else "held")
    evidence = {
        "property_id": pid,
        "tier": tier,
        "seed": seed,
        "level": getattr(prop, "LEVEL", "exploration"),
        "coverage": {
            "evaluations": evaluations,
            "distinct_nontrivial": len(nsigs),
            "distinct_cases": len(sigs),
            "rule": prop.RULE,
            "samples": samples[:10],
            "buckets": dict(sorted(buckets.items())),
            "monitor_counters": dict(sorted(counters.items())),
            "observations_outside_domain": dict(sorted(observations.items())),
            "known_findings_seen": {m: k["count"] for m, k in sorted(known.items())},
            "shards": len(results),
            "hashseeds": budget.get("hashseeds", [0, 1, 2, 3]),
            "exhaustive": bool(budget.get("exhaustive", False)),
            "verdict": verdict,
            "inconclusive_reasons": problems[:10],
            "violation_witnesses": [v["violation"] for v in violations[:5]],
        },
        "assumptions": list(getattr(prop, "ASSUMPTIONS", [])),
        "wall_s": round(wall, 2),
        "violations": n_viol,
    }
    EVIDENCE_DIR.mkdir(parents=True, exist_ok=True)
    (EVIDENCE_DIR / f"{pid}.json").write_text(json.dumps(evidence, indent=1, sort_keys=True))

    for mech, k in sorted(known.items()):
        print(f"KNOWN-FINDING: property={pid} {mech}: {common.finding_desc(pid, mech)} [{k['count']} witnesses this run]")
    summary = (f"evaluations={evaluations} distinct_nontrivial={len(nsigs)} "
               f"buckets={dict(sorted(buckets.items()))} counters={dict(sorted(counters.items()))} wall_s={wall:.1f}")
    if n_viol:
        for v in violations[:3]:
            print("witness:", json.dumps(v["violation"])[:1200])
        print(f"unlisted violating witnesses: {n_viol}; {summary}")
        print(f"VIOLATION property={pid} replay={replay_paths[0]}")
        return EXIT_VIOLATION
    if problems:
        print(f"INCONCLUSIVE property={pid} reason={problems[0][:2000]}")
        print(summary)
        return EXIT_INCONCLUSIVE
    print(f"HELD property={pid} {summary}")
    return EXIT_HELD


def main() -> int:
    ap = argparse.ArgumentParser()
    ap.add_argument("id")
    ap.add_argument("--tier", default=os.environ.get("VERIF_TIER", "quick"), choices=["quick", "thorough"])
    ap.add_argument("--replay")
    ap.add_argument("--worker", action="store_true")
    ap.add_argument("--seed", type=int, default=None)
    ap.add_argument("--cases", type=int, default=0)
    ap.add_argument("--shard-index", type=int, default=0)
    ap.add_argument("--out")
    ap.add_argument("--watchdog", type=float, default=900)
    ap.add_argument("--scale", type=float, default=1.0)
    args = ap.parse_args()
    args.id = args.id.upper()
    if args.replay:
        return replay(args)
    if args.worker:
        return worker(args)
    return parent(args)


if __name__ == "__main__":
    sys.exit(main())
