"""Runtime-monitoring machinery for frequenz-sdk-python (properties C01..C20).

Entry point: ``/venv/bin/python -m vf.check <ID> --tier quick|thorough``.
See /verif/DESIGN.md.
"""
