"""Shared fixtures for the power-manager properties (C03, C04, C11).

Case JSON:  {"sys": [sl, su], "excl": [el, eu],
             "props": [{"src","prio","pref","lo","hi","t"}, ...], ...}
"""

from __future__ import annotations

from datetime import datetime, timedelta, timezone
from typing import Any

TS = datetime(2024, 1, 1, tzinfo=timezone.utc)
CID = frozenset({1, 2})
VALS = [-1000.0, -500.0, -100.0, -51.0, -50.0, -49.0, -10.0, 0.0, 10.0, 49.0, 50.0, 51.0, 100.0, 500.0, 1000.0]


def W(x: float | None) -> Any:
    from frequenz.quantities import Power

    if x == "nan":
        return Power.from_watts(float("nan"))  # (cases are JSON: a NaN bound is written as the string "nan")
    return None if x is None else Power.from_watts(x)


def mk_proposal(p: dict[str, Any], cid: frozenset[int] = CID, op: bool = False) -> Any:
    from frequenz.sdk.microgrid._power_managing._base_classes import Proposal
    from frequenz.sdk.timeseries._base_types import Bounds

    return Proposal(source_id=p["src"], preferred_power=W(p.get("pref")), bounds=Bounds(W(p.get("lo")), W(p.get("hi"))),
                    component_ids=cid, priority=p["prio"], creation_time=float(p.get("t", 0.0)),
                    set_operating_point=op)


def mk_sysbounds(sys: list[float] | None, excl: list[float] | None) -> Any:
    from frequenz.sdk.timeseries._base_types import Bounds, SystemBounds

    return SystemBounds(timestamp=TS,
                        inclusion_bounds=None if sys is None else Bounds(W(sys[0]), W(sys[1])),
                        exclusion_bounds=None if excl is None else Bounds(W(excl[0]), W(excl[1])))


def new_matryoshka(max_age: float = 60.0) -> Any:
    from frequenz.sdk.microgrid._power_managing._matryoshka import Matryoshka

    return Matryoshka(max_proposal_age=timedelta(seconds=max_age))


# ------------------------------------------------------------------ reference model


def carve(lo: float, hi: float, el: float, eu: float) -> tuple[float, float]:
    """Push an interval end that lies strictly inside the zone to the zone's edge."""
    if el != 0 or eu != 0:
        if el < lo < eu:
            lo = eu
        if el < hi < eu:
            hi = el
    return lo, hi


def order_key(p: dict[str, Any]) -> tuple[int, str]:
    return (p["prio"], p["src"])


def reference(props: list[dict[str, Any]], sl: float, su: float, el: float, eu: float,
              stop_at: tuple[int, str] | None = None, ignore_bounds_inside_zone: bool = False) -> dict[str, Any] | None:
    """Independent statement-level model of C04.

    Returns None when the set is not conflict-free; otherwise
    {"candidates": set of admissible targets, "interval": running interval at the end,
     "dontcare": True when a ~0 preference fell inside the zone}.
    If stop_at is given, only proposals with key > stop_at are applied (interval seen by that actor).
    """
    zone = el != 0 or eu != 0
    lo, hi = carve(sl, su, el, eu)
    if lo > hi:
        return None
    cands = {0.0}
    dontcare = False
    for p in sorted(props, key=order_key, reverse=True):
        if stop_at is not None and order_key(p) <= stop_at:
            break
        pref = p.get("pref")
        if pref is not None:
            x = min(max(pref, lo), hi)
            if zone and el < x < eu:
                c = []
                if lo <= el:
                    c.append(el)
                if hi >= eu:
                    c.append(eu)
                if not c:
                    return None
                d = min(abs(v - pref) for v in c)
                cands = {v for v in c if abs(abs(v - pref) - d) < 1e-9}
                dontcare = False
                if abs(pref) < 1e-9:
                    # statement: "zero or outside the zone"; the code is not self-consistent here
                    if lo <= 0.0 <= hi:
                        cands = cands | {0.0}
                    dontcare = True
            else:
                cands = {x}
                dontcare = False
        blo, bhi = p.get("lo"), p.get("hi")
        # a proposal whose own bounds lie strictly inside the zone cannot be honoured at all: the manager ignores those
        # bounds (in the target and in what it reports alike); the proposal's preference still counts
        if zone and blo is not None and bhi is not None and el < blo < eu and el < bhi < eu:
            if ignore_bounds_inside_zone:
                continue
            return None
        nlo = lo if blo is None else max(lo, blo)
        nhi = hi if bhi is None else min(hi, bhi)
        if nlo > nhi:
            return None
        nlo, nhi = carve(nlo, nhi, el, eu)
        if nlo > nhi:
            return None
        lo, hi = nlo, nhi
    return {"candidates": cands, "interval": (lo, hi), "dontcare": dontcare}


def gen_sys(rng: Any) -> tuple[list[float], list[float]]:
    sl = rng.choice([-1000.0, -500.0, -60.0, -50.0, -20.0, 0.0, round(rng.uniform(-1200, 0), 1)])
    su = rng.choice([0.0, 20.0, 50.0, 60.0, 500.0, 1000.0, round(rng.uniform(0, 1200), 1)])
    r = rng.random()
    if r < 0.35:
        el, eu = 0.0, 0.0
    elif r < 0.6:
        el, eu = rng.choice([(-50.0, 50.0), (-10.0, 10.0), (-100.0, 100.0)])
    else:
        el = -rng.choice([0.0, 10.0, 50.0, 100.0, 1500.0])
        eu = rng.choice([0.0, 10.0, 50.0, 100.0, 1500.0])
    return [sl, su], [el, eu]


def gen_props(rng: Any, n: int, distinct_prio: bool, compat_bias: float = 0.5) -> list[dict[str, Any]]:
    props = []
    prios = rng.sample(range(-3, 12), n) if distinct_prio else [rng.randint(0, 3) for _ in range(n)]
    for i in range(n):
        pref = rng.choice([None, None] + VALS + [round(rng.uniform(-1100, 1100), 2)])
        if rng.random() < compat_bias:
            blo = rng.choice([None, None, None] + [v for v in VALS if v <= 0])
            bhi = rng.choice([None, None, None] + [v for v in VALS if v >= 0])
        else:
            blo = rng.choice([None, None] + VALS)
            bhi = rng.choice([None, None] + VALS)
            if blo is not None and bhi is not None and blo > bhi:
                blo, bhi = bhi, blo
        props.append({"src": f"a{i}", "prio": prios[i], "pref": pref, "lo": blo, "hi": bhi})
    if n >= 2 and rng.random() < 0.15:
        # two different actors (different priorities) that use the same source id: still two live proposals
        i, j = rng.sample(range(n), 2)
        if props[i]["prio"] != props[j]["prio"]:
            props[j]["src"] = props[i]["src"]
    return props
