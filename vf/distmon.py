"""Recording contracts on the real BatteryDistributionAlgorithm (C01, C02).

Uses icontract.snapshot/ensure with conditions that *record and return True*, so the
observed execution is never altered. The record carries the public result plus the
stage snapshots (S1+S2 = set allocations before/after the greedy top-up, S3 = split of
each set's allocation over its inverters) used for attribution in finding predicates.
"""

from __future__ import annotations

import copy
import math
from typing import Any

_installed = False
_stage: dict[str, Any] = {}
COUNTS = {"greedy": 0, "multi": 0, "public": 0}


def _set_key(s: Any) -> str:
    return ",".join(str(i) for i in sorted(s))


def _snap_dist(distribution: Any) -> dict[str, Any]:
    return {_set_key(k): {"power": v.power, "upper": v.upper_bound} for k, v in distribution.items()}


def install() -> None:
    global _installed
    if _installed:
        return
    from .common import ensure_icontract

    ensure_icontract()
    import icontract

    from frequenz.sdk.microgrid._power_distributing._distribution_algorithm import \
        _battery_distribution_algorithm as mod

    cls = mod.BatteryDistributionAlgorithm

    class ContractBroken(Exception):
        pass

    # ---- S2: greedy top-up
    def greedy_before(distribution: Any, remaining_power: float) -> Any:
        return (_snap_dist(distribution), remaining_power)

    def greedy_after(distribution: Any, result: Any, OLD: Any) -> bool:
        try:
            # (returns (distribution, left-over); a variant that tops up in place and returns the left-over only is
            # recorded just the same)
            sets, left = (result[0], result[1]) if isinstance(result, tuple) else (distribution, result)
            _stage["greedy_in"] = {"sets": OLD.pre[0], "left": OLD.pre[1]}
            _stage["greedy_out"] = {"sets": _snap_dist(sets), "left": float(left)}
            COUNTS["greedy"] += 1
        except Exception:  # pylint: disable=broad-except  (a recording condition must never disturb the execution)
            _stage.pop("greedy_in", None)
            _stage.pop("greedy_out", None)
        return True

    def hook(name: str, before: Any, after: Any) -> None:
        """Attach the recording contract to the method of the class, or to a module-level function of that name."""
        for owner in (cls, mod):
            if hasattr(owner, name):
                try:
                    setattr(owner, name, icontract.snapshot(before, name="pre")(
                        icontract.ensure(after, error=ContractBroken)(getattr(owner, name))))
                except Exception:  # pylint: disable=broad-except  (other signature: no hook, the counters stay at zero)
                    pass
                return

    hook("_greedy_distribute_remaining_power", greedy_before, greedy_after)

    # ---- S3: split over the inverters of one set
    def multi_before(distribution: Any, excl_bounds: Any, incl_bounds: Any) -> Any:
        return (_snap_dist(distribution), dict(excl_bounds), dict(incl_bounds),
                {_set_key(k): [int(i) for i in k] for k in distribution})

    def multi_after(result: Any, OLD: Any) -> bool:
        try:
            out = result[0] if isinstance(result, tuple) else result
            _stage["multi_in"] = {"sets": OLD.pre[0], "excl": {str(k): v for k, v in OLD.pre[1].items()},
                                  "incl": {str(k): v for k, v in OLD.pre[2].items()}, "order": OLD.pre[3]}
            _stage["multi_out"] = {str(k): v for k, v in out.items()}
            COUNTS["multi"] += 1
        except Exception:  # pylint: disable=broad-except
            _stage.pop("multi_in", None)
            _stage.pop("multi_out", None)
        return True

    hook("_distribute_multi_inverter_pairs", multi_before, multi_after)

    # ---- public function
    def public_after(power: float, components: Any, result: Any) -> bool:
        COUNTS["public"] += 1
        _stage["public"] = {"power": power, "distribution": {str(k): v for k, v in result.distribution.items()},
                            "remaining": result.remaining_power}
        return True

    cls.distribute_power = icontract.ensure(public_after, error=ContractBroken)(cls.distribute_power)
    _installed = True


def run(case: dict[str, Any]) -> dict[str, Any]:
    """Run the real algorithm on the case; return {'result':…, 'stages':…}."""
    from frequenz.sdk.microgrid._power_distributing._distribution_algorithm import \
        BatteryDistributionAlgorithm

    from . import batdata

    install()
    _stage.clear()
    pairs = batdata.build_pairs(case)
    alg = BatteryDistributionAlgorithm(case["exp"])
    res = alg.distribute_power(case["power"], pairs)
    stages = copy.deepcopy(_stage)
    return {
        "distribution": {int(k): float(v) for k, v in res.distribution.items()},
        "remaining": float(res.remaining_power),
        "stages": stages,
    }


def enforced_bounds(case: dict[str, Any]) -> tuple[float, float, float, float]:
    """(incl_lower, excl_lower, excl_upper, incl_upper) the real BatteryManager enforces on requests
    (the bounds its _check_request compares against), computed by the code under test."""
    from frequenz.sdk.microgrid._power_distributing._component_managers._battery_manager import \
        BatteryManager

    from . import batdata

    b = BatteryManager._get_bounds(None, batdata.build_pairs(case))  # type: ignore[arg-type]
    return (float(b.inclusion_lower), float(b.exclusion_lower), float(b.exclusion_upper), float(b.inclusion_upper))


def band_requests(case: dict[str, Any]) -> list[float]:
    """Requests the distributor's enforced exclusion bound admits although the pool-advertised one
    (harness model) does not. Empty when enforced and advertised exclusion bounds agree."""
    from . import batdata

    _, e_el, e_eu, _ = enforced_bounds(case)
    _, a_el, a_eu, _ = batdata.advertised(case)
    up = case["power"] > 0
    lo, hi = (e_eu, a_eu) if up else (-e_el, -a_el)
    if not (math.isfinite(lo) and math.isfinite(hi)) or lo < 0 or not lo < hi - 1e-6 * max(1.0, hi):
        return []
    u = (abs(case["power"]) * 0.6180339887) % 1.0
    mags = [lo + u * (hi - lo)]
    if lo > 1e-6:
        mags.append(lo)
    return [m if up else -m for m in mags if m > 1e-6]


def excl_hook_mismatch(case: dict[str, Any], multi_in: dict[str, Any] | None, up: bool) -> list[Any]:
    """Invariant at a hook: the per-inverter exclusion bound the split stage works with is that inverter's own bound
    (documented in `_inclusion_exclusion_bounds`: inverter exclusion bounds are *not* adjusted to the battery's).
    Returns [(inverter id, bound used, own bound)] for every inverter where that is not so."""
    from . import batdata

    if not multi_in:
        return []
    bad = []
    for g, grp in enumerate(case["groups"]):
        for j, inv in enumerate(grp["invs"]):
            iid = batdata.inv_id(g, j)
            used = multi_in["excl"].get(str(iid))
            own = inv["eu"] if up else -inv["el"]
            if used is not None and abs(used - own) > 1e-9 * max(1.0, abs(own)):
                bad.append([iid, used, own])
    return bad


def stage_report(case: dict[str, Any], out: dict[str, Any]) -> dict[str, Any]:
    """Stage identities (all in the direction-normalised, positive, frame)."""
    st = out["stages"]
    p = abs(case["power"])
    rep: dict[str, Any] = {"have": sorted(st.keys())}
    if "greedy_in" in st:
        s_in = sum(v["power"] for v in st["greedy_in"]["sets"].values())
        rep["s1_err"] = s_in + st["greedy_in"]["left"] - p  # >0: power created, <0: lost
        s_out = sum(v["power"] for v in st["greedy_out"]["sets"].values())
        rep["s2_err"] = (s_out + st["greedy_out"]["left"]) - (s_in + st["greedy_in"]["left"])
        rep["left_in"] = st["greedy_in"]["left"]
    if "multi_in" in st:
        per_set = {}
        for key, v in st["multi_in"]["sets"].items():
            ids = key.split(",")
            placed = sum(st["multi_out"].get(i, 0.0) for i in ids)
            per_set[key] = placed - v["power"]
        rep["s3_err_by_set"] = per_set
        rep["s3_err"] = sum(per_set.values())
        rep["excl_hook_mismatch"] = excl_hook_mismatch(case, st["multi_in"], case["power"] > 0)
    return rep
