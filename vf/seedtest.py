"""Confirm and evaluate seeded changes produced by independent sub-agents.

python -m vf.seedtest confirm  <ID> <A|B>   # in the scratch worktree /tmp/seed/<ID>: apply, suite passes, demo fails; revert, demo passes
python -m vf.seedtest evaluate <name> [PROP ...]  # apply /verif/seeded/<name>/patch.diff to /repo, run checks, ALWAYS revert

`confirm` copies a confirmed change to /verif/seeded/<ID>-<X>/ (patch.diff, demo.py, meta.json).
`evaluate` records which checks fire in /verif/seeded/<name>/meta.json ("detected_by").
"""

from __future__ import annotations

import json
import shutil
import subprocess
import sys
from pathlib import Path

import os

SEEDED = Path("/verif/seeded")
REPO = os.environ.get("VERIF_REPO", "/repo")  # evaluation target (a scratch worktree while /repo is busy)


def sh(cmd: str, cwd: str | None = None, timeout: int = 1800) -> tuple[int, str]:
    p = subprocess.run(cmd, shell=True, cwd=cwd, capture_output=True, text=True, timeout=timeout)
    return p.returncode, (p.stdout + p.stderr)


def confirm(pid: str, x: str) -> int:
    wt = f"/tmp/seed/{pid}"
    sd = {"A": "_seed", "B": "_seed", "C": "_seed2", "D": "_seed2", "E": "_seed3", "F": "_seed3", "G": "_seed4", "H": "_seed4", "I": "_seed5", "J": "_seed5", "K": "_seed6", "L": "_seed6", "M": "_seed7", "N": "_seed7", "O": "_seed8", "P": "_seed8", "Q": "_seed9", "R": "_seed9", "S": "_seed10", "T": "_seed10", "U": "_seed11", "V": "_seed11", "W": "_seed13", "X": "_seed13", "Y": "_seed14", "Z": "_seed14"}.get(x, "_seed12")  # later rounds: agents were told to avoid the earlier changes
    patch = f"{wt}/{sd}/patch_{x}.diff"
    demo = f"{wt}/{sd}/demo_{x}.py"
    env = f"PYTHONPATH={wt}/src:{wt} PYTHONDONTWRITEBYTECODE=1"
    if not Path(patch).exists() or not Path(demo).exists():
        print("missing patch or demo")
        return 2
    rc, out = sh(f"git -C {wt} status --porcelain -- src tests")
    if out.strip():
        sh(f"git -C {wt} checkout -- src tests")
    ran: dict[str, str] = {}
    rc0, out0 = sh(f"cd {wt} && {env} timeout 300 /venv/bin/python {demo}")
    ran["demo_on_unchanged_tree"] = f"exit {rc0}"
    rc, out = sh(f"git -C {wt} apply {patch}")
    if rc != 0:
        print("patch does not apply:", out[-300:])
        return 2
    try:
        rcs, outs = sh(f"cd {wt} && {env} /venv/bin/python -m pytest -q -p no:cacheprovider -x tests 2>&1 | grep -E \" passed| failed|error\" | tail -1")
        ran["suite_with_change"] = outs.strip().splitlines()[-1] if outs.strip() else "?"
        rc1, out1 = sh(f"cd {wt} && {env} timeout 300 /venv/bin/python {demo}")
        ran["demo_with_change"] = f"exit {rc1}: " + out1.strip()[-300:]
        rcd, diffstat = sh(f"git -C {wt} diff --stat -- src | tail -1")
    finally:
        sh(f"git -C {wt} checkout -- src tests")
    ok = rc0 == 0 and rc1 != 0 and " passed" in ran["suite_with_change"] and "failed" not in ran["suite_with_change"]
    print(json.dumps(ran, indent=1))
    print("CONFIRMED" if ok else "NOT CONFIRMED")
    if not ok:
        return 1
    dst = SEEDED / f"{pid}-{x}"
    dst.mkdir(parents=True, exist_ok=True)
    shutil.copy(patch, dst / "patch.diff")
    shutil.copy(demo, dst / "demo.py")
    notes = Path(f"{wt}/{sd}/notes.md")
    if notes.exists():
        shutil.copy(notes, dst / "agent_notes.md")
    meta = {"property": pid, "variant": x, "source": "independent sub-agent given only the property text and a scratch worktree",
            "diffstat": diffstat.strip(), "confirmed_by_me": ran,
            "needs_to_manifest": "see agent_notes.md", "detected_by": {},
            "base_commit": sh(f"git -C {wt} rev-parse --short HEAD")[1].strip()}
    (dst / "meta.json").write_text(json.dumps(meta, indent=1))
    return 0


def evaluate(name: str, props: list[str]) -> int:
    d = SEEDED / name
    meta = json.loads((d / "meta.json").read_text())
    props = props or [meta["property"]]
    dirty = sh(f"git -C {REPO} status --porcelain -- src tests")[1].strip()
    if dirty:
        print(f"refusing: {REPO} is not clean")
        return 2
    rc, out = sh(f"git -C {REPO} apply {d / 'patch.diff'}")
    if rc != 0:
        print(f"patch does not apply to {REPO}:", out[-300:])
        return 2
    try:
        for pid in props:
            rc, out = sh(f"cd /verif && /venv/bin/python -m vf.check {pid} --tier quick")
            verdict = [l for l in out.splitlines() if l.startswith(("VIOLATION", "HELD", "INCONCLUSIVE"))]
            wit = [l for l in out.splitlines() if l.startswith("witness:")]
            meta["detected_by"][pid] = {"tier": "quick", "exit": rc, "evaluated_on": REPO, "verdict": verdict[0][:200] if verdict else out[-200:],
                                        "first_witness": wit[0][:400] if wit else None}
            print(name, pid, "rc=", rc, "CAUGHT" if rc == 1 else "MISSED")
    finally:
        sh(f"git -C {REPO} checkout -- src tests")
    (d / "meta.json").write_text(json.dumps(meta, indent=1))
    return 0


if __name__ == "__main__":
    if sys.argv[1] == "confirm":
        sys.exit(confirm(sys.argv[2], sys.argv[3]))
    sys.exit(evaluate(sys.argv[2], sys.argv[3:]))
