"""Virtual time: async_solipsism loop with the wall clock locked to loop.time().

``datetime.now()`` == EPOCH + start_offset + loop.time() at all times, so timers,
resamplers, status trackers and timeouts run deterministically and fast. A
coroutine that can never progress raises async_solipsism.SleepForeverError (a
deterministic hang detector).
"""

from __future__ import annotations

import asyncio
import warnings
from datetime import datetime, timedelta, timezone
from typing import Any, Awaitable, Callable

import async_solipsism
import time_machine

EPOCH = datetime(2024, 1, 1, 0, 0, 0, tzinfo=timezone.utc)


class Livelock(Exception):
    """The loop ran LIVELOCK_LIMIT iterations without virtual time advancing and without finishing:
    some task of the code under observation is spinning (a logical-step verdict, not a wall-clock one)."""


LIVELOCK_LIMIT = 300_000


class LoopMonitor:
    """Generic 'sanitizer' monitor: exceptions that reach the loop handler."""

    def __init__(self) -> None:
        self.loop_exceptions: list[dict[str, Any]] = []

    def handler(self, loop: asyncio.AbstractEventLoop, ctx: dict[str, Any]) -> None:
        exc = ctx.get("exception")
        self.loop_exceptions.append(
            {"message": str(ctx.get("message"))[:200], "exception": repr(exc)[:300]}
        )


def run_virtual(
    coro_fn: Callable[[], Awaitable[Any]],
    start_offset: float = 0.0,
    monitor: LoopMonitor | None = None,
    debug: bool = False,
) -> Any:
    """Run coro_fn() to completion in a fresh virtual-time loop."""
    start = EPOCH + timedelta(seconds=start_offset)
    with time_machine.travel(start, tick=False) as tr:
        loop = async_solipsism.EventLoop()
        clock = loop._selector.clock  # pylint: disable=protected-access
        orig = clock.advance

        def adv(delta: float) -> None:
            orig(delta)
            tr.move_to(start + timedelta(microseconds=round(clock.time() * 1e6)))

        clock.advance = adv
        # async_solipsism takes a select timeout of a day or more for "sleep forever" (asyncio caps every timeout at
        # exactly one day); a timer that is due in more than a day is waited for in steps of just under a day
        sel = loop._selector  # pylint: disable=protected-access
        orig_select = sel.select
        day = asyncio.base_events.MAXIMUM_SELECT_TIMEOUT

        def select(timeout: float | None = None) -> Any:
            if timeout is not None and timeout >= day:
                timeout = day - 1.0
            return orig_select(timeout)

        sel.select = select  # type: ignore[method-assign]
        # livelock detector: count loop iterations at one virtual instant
        spin = {"t": None, "n": 0}
        orig_run_once = loop._run_once  # pylint: disable=protected-access

        def run_once() -> None:
            t = clock.time()
            if t == spin["t"]:
                spin["n"] += 1
                if spin["n"] > LIVELOCK_LIMIT:
                    spin["n"] = 0
                    raise Livelock(f"{LIVELOCK_LIMIT} loop iterations at virtual time {t} without progress")
            else:
                spin["t"], spin["n"] = t, 0
            orig_run_once()

        loop._run_once = run_once  # type: ignore[method-assign]  # pylint: disable=protected-access
        if monitor is not None:
            loop.set_exception_handler(monitor.handler)
        loop.set_debug(debug)
        asyncio.set_event_loop(loop)
        try:
            return loop.run_until_complete(coro_fn())
        finally:
            try:
                pend = [t for t in asyncio.all_tasks(loop) if not t.done()]
                for t in pend:
                    t.cancel()
                if pend:
                    loop.run_until_complete(asyncio.wait(pend, timeout=5.0))
            except BaseException:  # pylint: disable=broad-except
                pass
            with warnings.catch_warnings():
                warnings.simplefilter("ignore")
                loop.close()
            asyncio.set_event_loop(None)


def now() -> float:
    return asyncio.get_event_loop().time()


async def sleep_until(t: float) -> None:
    dt = t - now()
    if dt > 0:
        await asyncio.sleep(dt)
