"""Shared virtual-time driver for the resampler properties (C07 timeline, C08 sample selection).

Case JSON:
 {"period": s, "align": null | offset_seconds (align_to = EPOCH + offset), "start_offset": s,
  "max_age": x, "init_len": n, "max_len": n, "ticks": n,
  "series": [{"add_at": seconds after creation (0 => before resample() starts),
              "events": [[dt, ts_kind, val_kind], ...]}],       # producer script, see _producer
  "lat": [[tick_no, series_idx, latency_in_periods], ...]}      # sink latency script
Everything observable is recorded at the public boundary: the sink callables given to
Resampler.add_timeseries and the resampling_function given through ResamplerConfig; plus the
hooked helper state (buffer capacity, source properties) read right after each emission.
"""

from __future__ import annotations

import asyncio
import math
from datetime import datetime, timedelta, timezone
from typing import Any

from .vloop import EPOCH, LoopMonitor, run_virtual


def _now() -> datetime:
    return datetime.now(timezone.utc)


def run_case(case: dict[str, Any]) -> dict[str, Any]:
    from frequenz.channels import Broadcast
    from frequenz.quantities import Quantity

    from frequenz.sdk.timeseries import Sample
    from frequenz.sdk.timeseries._resampling import Resampler, ResamplerConfig

    period = case["period"]
    rec: dict[str, Any] = {"calls": [], "sinks": {}, "arrivals": {}, "restarts": [], "added": {}, "errors": [],
                           "removed": {}, "faults": {}}
    lat = {(t, s): l for t, s, l in case.get("lat", [])}
    uid = [0]

    def fn(samples: Any, conf: Any, props: Any) -> float:
        rec["calls"].append({"samples": [(s.timestamp, s.value.base_value) for s in samples],
                             "sampling_period": props.sampling_period})
        if case.get("nan_every") and len(rec["calls"]) % case["nan_every"] == 0:
            return math.nan  # a resampling function may yield NaN (e.g. too few samples): still one sample per tick
        return float(len(rec["calls"]))

    async def main() -> None:
        align = case.get("align")
        kw: dict[str, Any] = {}
        if align is not None:
            kw["align_to"] = EPOCH + timedelta(seconds=align)
            if case.get("align_zone"):
                from zoneinfo import ZoneInfo

                kw["align_to"] = kw["align_to"].astimezone(ZoneInfo(case["align_zone"]))
            elif case.get("align_tz_min"):
                # the same instant written in another time zone
                kw["align_to"] = kw["align_to"].astimezone(timezone(timedelta(minutes=case["align_tz_min"])))
        else:
            kw["align_to"] = None
        if case.get("fn") != "default":  # "default": the library's own resampling function (average)
            kw["resampling_function"] = fn
        cfg = ResamplerConfig(
            resampling_period=timedelta(seconds=period), max_data_age_in_periods=case["max_age"],
            initial_buffer_len=case["init_len"],
            warn_buffer_len=max(1, case["max_len"] - 1), max_buffer_len=case["max_len"], **kw)
        rec["created"] = _now()
        if case.get("creeping_clock"):
            # a real clock moves on between two readings: while the resampler is constructed, every reading of the
            # wall clock after the first one is a microsecond later than the one before
            import frequenz.sdk.timeseries._resampling as _rs

            class _Creep:
                n = 0

                def now(self, tz: Any = None) -> datetime:
                    d = datetime.now(tz) + timedelta(microseconds=self.n)
                    self.n += 1
                    return d

                def __getattr__(self, k: str) -> Any:
                    return getattr(datetime, k)

            creep = _Creep()
            _rs.datetime = creep  # type: ignore[assignment]
            try:
                r = Resampler(cfg)
            finally:
                _rs.datetime = datetime
            rec["clock_readings_during_construction"] = creep.n
        else:
            r = Resampler(cfg)
        loop = asyncio.get_event_loop()
        t_created = loop.time()
        tick_counter = {"n": 0}
        chans: dict[int, Any] = {}
        rxs: dict[int, Any] = {}

        def add(i: int) -> None:
            c = Broadcast(name=f"s{i}")
            rx = c.new_receiver(limit=1000)
            chans[i] = c
            rxs[i] = rx
            rec["sinks"][i] = []
            rec["arrivals"][i] = []

            async def sink(s: Any, i: int = i, rx: Any = rx) -> None:
                # tick number = position on this run's tick sequence (by timestamp)
                helper = r._resamplers[rx]._helper  # noqa: SLF001
                entry = {"ts": s.timestamp, "value": None if s.value is None else s.value.base_value,
                         "t_recv": _now(), "t_call": _now(), "ncalls": len(rec["calls"]), "cap": helper._buffer.maxlen,  # noqa: SLF001
                         "sampling_period": r.get_source_properties(rx).sampling_period}
                # a slow sink either takes the sample at once and is busy afterwards, or it is slow to take it (a full
                # channel): then the sample has been handed over only when the sink returns
                late = bool(case.get("sink_takes_late"))
                if not late:
                    rec["sinks"][i].append(entry)
                k = round((s.timestamp - rec["first_window_end"]).total_seconds() / period) if "first_window_end" in rec else 0
                l = lat.get((k, i), 0.0)
                if l > 0:
                    await asyncio.sleep(l * period)
                if late:
                    entry["t_recv"] = _now()
                    rec["sinks"][i].append(entry)

            # (the name is a free-form label: several series may carry the same one)
            ok = r.add_timeseries("series" if case.get("same_names") else f"s{i}", rx, sink)
            rec["added"][i] = {"at": _now(), "ok": ok, "window_end_at_add": r._window_end}  # noqa: SLF001

        rec["first_window_end"] = r._window_end  # noqa: SLF001  (hooked state, used only to number ticks)

        async def producer(i: int, events: list[Any]) -> None:
            sender = chans[i].new_sender()
            last_ts = None
            for dt, ts_kind, val_kind in events:
                await asyncio.sleep(dt)
                now = _now()
                if ts_kind == "now":
                    ts = now
                elif ts_kind == "past":
                    ts = now - timedelta(seconds=0.2 * period)
                elif ts_kind == "future":
                    ts = now + timedelta(seconds=0.4 * period)
                elif ts_kind == "far-future":
                    ts = now + timedelta(seconds=1.3 * period)
                elif ts_kind in ("grid-next", "grid-prev"):
                    base = rec["first_window_end"]
                    k = (now - base).total_seconds() / period
                    k = math.ceil(k) if ts_kind == "grid-next" else math.floor(k)
                    ts = base + timedelta(seconds=k * period)
                elif ts_kind == "grid-age-edge":
                    # exactly T - max_age*period for the next tick T
                    base = rec["first_window_end"]
                    k = math.ceil((now - base).total_seconds() / period)
                    ts = base + timedelta(seconds=k * period) - timedelta(seconds=case["max_age"] * period)
                else:
                    ts = now
                if ts_kind == "same" and last_ts is not None:
                    ts = last_ts  # a source with a coarse clock: two samples with one timestamp (still time-ordered)
                elif last_ts is not None and ts <= last_ts:
                    ts = last_ts + (timedelta(0) if case.get("allow_equal_ts") and ts == last_ts
                                    else timedelta(microseconds=1))
                last_ts = ts
                tzm = case["series"][i].get("tz_min") if i < len(case.get("series", [])) else None
                if tzm:
                    # the same instant, written in the source's own (non-UTC) zone
                    ts = ts.astimezone(timezone(timedelta(minutes=tzm)))
                tzz = case["series"][i].get("tz_zone") if i < len(case.get("series", [])) else None
                if tzz:
                    # ... a zone with daylight saving (the run straddles a clock change)
                    from zoneinfo import ZoneInfo

                    ts = ts.astimezone(ZoneInfo(tzz))
                uid[0] += 1
                my = float(uid[0])
                if val_kind == "zero":
                    my = 0.0  # a valid sample whose value is zero
                if val_kind == "inf":
                    my = float("inf") if uid[0] % 2 else float("-inf")  # a valid sample whose value is infinite
                if val_kind == "none":
                    s = Sample(ts, None)
                elif val_kind == "nan":
                    s = Sample(ts, Quantity(float("nan")))
                else:
                    s = Sample(ts, Quantity(my))
                try:
                    await sender.send(s)
                except Exception:  # pylint: disable=broad-except
                    return  # the harness closed this channel (scripted fault)
                await asyncio.sleep(0)
                await asyncio.sleep(0)
                if val_kind in ("ok", "zero", "inf"):
                    # (the books are kept in UTC: datetimes that share a zone object compare by wall clock)
                    rec["arrivals"][i].append({"ts": ts.astimezone(timezone.utc), "value": my, "t_sent": now})

        async def resample_forever() -> None:
            # like ComponentMetricsResamplingActor: restart resample() whenever it ends, after removing the
            # series that failed (a closed source, a raising sink)
            from frequenz.sdk.timeseries._resampling import ResamplingError

            while True:
                try:
                    await r.resample()
                except asyncio.CancelledError:
                    raise
                except ResamplingError as e:
                    removed = []
                    for source in e.exceptions:
                        idx = next((i for i, rx in rxs.items() if rx is source), None)
                        removed.append([idx, r.remove_timeseries(source)])
                        if idx is not None:
                            rec["removed"][idx] = {"at": _now(), "why": type(e.exceptions[source]).__name__}
                    rec["restarts"].append({"at": _now(), "error": f"ResamplingError removed={removed}"})
                except Exception as e:  # pylint: disable=broad-except
                    rec["restarts"].append({"at": _now(), "error": f"{type(e).__name__}: {e}"[:200]})

        async def fault(i: int, spec: dict[str, Any]) -> None:
            """Scripted end of a series: the source channel closes, or the user removes the series."""
            dt = t_created + spec["at"] - loop.time()
            if dt > 0:
                await asyncio.sleep(dt)
            if i not in chans:
                return
            if spec["kind"] == "close":
                await chans[i].close()
                rec["faults"][i] = {"at": _now(), "kind": "close"}
            else:
                ok = r.remove_timeseries(rxs[i])
                rec["faults"][i] = {"at": _now(), "kind": "remove", "ok": ok}
                rec["removed"][i] = {"at": _now(), "why": "remove_timeseries"}

        prods = []
        series = case["series"]
        for i, s in enumerate(series):
            if s["add_at"] <= 0:
                add(i)
                prods.append(asyncio.create_task(producer(i, s["events"])))
        task = asyncio.create_task(resample_forever())
        for i, s in enumerate(series):
            if s.get("end"):
                prods.append(asyncio.create_task(fault(i, s["end"])))
        pending = sorted(((s["add_at"], i) for i, s in enumerate(series) if s["add_at"] > 0))
        for at, i in pending:
            dt = t_created + at - loop.time()
            if dt > 0:
                await asyncio.sleep(dt)
            add(i)
            prods.append(asyncio.create_task(producer(i, series[i]["events"])))
        end = t_created + case["ticks"] * period
        dt = end - loop.time()
        if dt > 0:
            await asyncio.sleep(dt)
        for p in prods:
            p.cancel()
        rec["stopped_at"] = _now()
        rec["window_end_at_stop"] = r._window_end  # noqa: SLF001
        # catch-up allowance: let late ticks drain (lateness injection has stopped)
        await asyncio.sleep(case.get("drain_periods", 3) * period)
        rec["drained_at"] = _now()
        task.cancel()
        try:
            await r.stop()
        except Exception:  # pylint: disable=broad-except
            pass

    mon = LoopMonitor()
    run_virtual(main, start_offset=case["start_offset"], monitor=mon)
    rec["loop_exceptions"] = mon.loop_exceptions
    return rec
