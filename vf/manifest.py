"""Regenerate /verif/MANIFEST.json from the property modules (python -m vf.manifest)."""

from __future__ import annotations

import importlib
import json

from . import common

ALL = [f"C{i:02d}" for i in range(1, 21)]
PY = "/venv/bin/python"
SETUP = ("mkdir -p /verif/.deps /verif/evidence /verif/.work && "
         "(test -d /verif/.deps/icontract || /venv/bin/pip install -q --no-index "
         "--find-links /opt/veriftools/wheels --target /verif/.deps icontract)")


def main() -> None:
    common.bootstrap()
    checks = []
    na = []
    for pid in ALL:
        try:
            prop = importlib.import_module(f"vf.props.{pid.lower()}")
        except ModuleNotFoundError:
            na.append({"property_id": pid, "reason": "check not built yet (runtime monitor planned in DESIGN.md section 3)"})
            continue
        checks.append({
            "property_id": pid,
            "quick_cmd": f"cd /verif && {PY} -m vf.check {pid} --tier quick",
            "thorough_cmd": f"cd /verif && {PY} -m vf.check {pid} --tier thorough",
            "evidence_file": f"/verif/evidence/{pid}.json",
            "replay_cmd_template": f"cd /verif && {PY} -m vf.check {pid} --replay {{path}}",
            "engine": "vf",
            "level_claimed": {
                "category": getattr(prop, "LEVEL", "exploration"),
                "text": prop.LEVEL_TEXT,
                "design_ref": f"DESIGN.md section 3, {pid}",
            },
            "level_note": prop.LEVEL_NOTE,
            "technique": prop.TECHNIQUE,
        })
    manifest = {
        "version": 1,
        "setup_cmd": SETUP,
        "hooks": {
            "guard": common.GUARD,
            "enable": f"{common.GUARD}=1 in the environment (set by vf.common.bootstrap); no source hooks are "
                      "committed in /repo: all observation is by attribute re-binding / icontract from the harness",
            "baseline_off_cmd": "cd /repo && /venv/bin/python -m pytest -ra -q -p no:cacheprovider --timeout=900 "
                                "--continue-on-collection-errors",
            "source_commits": [],
            "add_only": True,
        },
        "engines": [{
            "name": "vf", "path": "/verif/vf",
            "serves_properties": [c["property_id"] for c in checks],
            "kind_free_text": "runtime monitors (recording contracts on real functions, boundary recorders + reference "
                              "models, virtual-time schedule/fault exploration) over the real frequenz-sdk code",
        }],
        "checks": checks,
        "not_applicable": na,
        "notes": "exit 0 held / 1 VIOLATION / 2 INCONCLUSIVE (monitor not reached, empty coverage bucket, shard "
                 "timeout). Known findings: /verif/known_findings.json. Replays: /verif/replays (not committed).",
    }
    (common.VERIF / "MANIFEST.json").write_text(json.dumps(manifest, indent=1) + "\n")
    print(f"{len(checks)} checks, {len(na)} not_applicable")


if __name__ == "__main__":
    main()
