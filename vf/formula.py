"""Shared streaming harness + reference semantics for the formula properties (C05, C13).

Program JSON:
  {"mode": "string" | "builder" | "api", "nleaf": n, "ast": AST, "src": "<formula string>" (string modes),
   "vectors": [[v0..vn-1], ...],                 # finite floats
   "missing": [[null|"none"|"nan"|"inf"|"-inf", ...], ...]  (optional, same shape as vectors)
   "naz": bool (formula level) , "leaf_naz": [bool]*n (per stream; builder/api modes)}
AST: ["leaf", i] | ["const", v] | ["bin", op, l, r] | ["un", "consumption"|"production", x]
"""

from __future__ import annotations

import asyncio
import math
from datetime import datetime, timedelta, timezone
from fractions import Fraction as F
from typing import Any

T0 = datetime(2024, 1, 1, tzinfo=timezone.utc)
EPS = F(1, 2 ** 48)
PREC = {"+": 1, "-": 1, "*": 2, "/": 2}
BINOPS = ["+", "-", "*", "/"]
PHASE_FACTORS = (1.0, 2.0, -1.0)
POOL = [0.0, 1.0, -1.0, 2.0, -2.0, 0.5, -0.5, 3.0, 7.0, -7.0, 10.0, 100.0, -100.0, 1e6, -1e6, 0.25, 1 / 3, -2 / 3, 1e-3]


class Bot:
    """The missing / undefined value of the three-valued reference."""

    def __repr__(self) -> str:
        return "BOT"


BOT = Bot()


class IllConditioned(Exception):
    """The propagated error bound is undefined (a divisor's bound reaches its magnitude)."""


# ------------------------------------------------------------------ generation


CLIP_BOUNDS = [None, -5.0, 0.0, 2.5, 100.0]


def gen_ast(rng: Any, depth: int, nleaf: int, api: bool, max_leaves: list[int], clip: bool = False) -> Any:
    if clip and rng.random() < 0.15:
        # a clip step (FormulaBuilder.push_clipper) on a metric or on a parenthesised sub-expression
        lo, hi = rng.choice(CLIP_BOUNDS), rng.choice(CLIP_BOUNDS)
        if lo is not None and hi is not None and lo > hi:
            lo, hi = hi, lo
        if lo is None and hi is None:
            lo = 0.0
        return ["un", "clip", gen_ast(rng, max(0, depth - 1), nleaf, api, max_leaves, clip), [lo, hi]]
    if depth == 0 or rng.random() < 0.22 or max_leaves[0] <= 1:
        max_leaves[0] -= 1
        return ["leaf", rng.randrange(nleaf)]
    r = rng.random()
    if clip:
        op = rng.choice(BINOPS)
        left = gen_ast(rng, depth - 1, nleaf, api, max_leaves, clip)
        right = (["const", float(rng.choice([-3, -2, -0.5, 0.5, 2, 3, 4]))] if rng.random() < 0.12
                 else gen_ast(rng, depth - 1, nleaf, api, max_leaves, clip))
        return ["bin", op, left, right]
    if api and r < 0.12:
        return ["un", rng.choice(["consumption", "production"]), gen_ast(rng, depth - 1, nleaf, api, max_leaves)]
    if api and r < 0.3:
        op = rng.choice(["min", "max"])
        left = gen_ast(rng, depth - 1, nleaf, api, max_leaves)
        right = ["const", float(rng.randint(-5, 5))] if rng.random() < 0.3 else gen_ast(rng, depth - 1, nleaf, api, max_leaves)
        return ["bin", op, left, right]
    op = rng.choice(BINOPS)
    left = gen_ast(rng, depth - 1, nleaf, api, max_leaves)
    if api and rng.random() < 0.15:
        right = ["const", float(rng.choice([-3, -2, -0.5, 0.5, 2, 3, 4]))]
    else:
        right = gen_ast(rng, depth - 1, nleaf, api, max_leaves)
    return ["bin", op, left, right]


def to_str(a: Any, rng: Any, parent: str | None = None, right: bool = False) -> str:
    """Render with the minimal parentheses required by conventional precedence and
    left-associativity, plus random redundant parentheses and whitespace."""
    if a[0] == "leaf":
        s = f"#{a[1] + 1}"
    else:
        op = a[1]
        ws = lambda: rng.choice(["", " ", "  ", "\t", "\n"])  # noqa: E731
        s = f"{to_str(a[2], rng, op, False)}{ws()}{op}{ws()}{to_str(a[3], rng, op, True)}"
        need = parent is not None and (PREC[op] < PREC[parent] or (right and PREC[op] == PREC[parent]))
        if need or rng.random() < 0.2:
            s = f"({s})"
    if rng.random() < 0.1:
        s = f"( {s} )"
    return s


def op_pairs(a: Any, out: set[str], in_parens_possible: bool = True) -> None:
    """Adjacent binary operator pairs (parent, side, child) — buckets for the precedence table."""
    if a[0] != "bin":
        if a[0] == "un":
            op_pairs(a[2], out)
        return
    for side, child in (("L", a[2]), ("R", a[3])):
        if child[0] == "bin":
            out.add(f"pair:{a[1]}{side}{child[1]}")
        op_pairs(child, out)


# ------------------------------------------------------------------ reference semantics


def _flat(a: Any, ops: tuple[str, ...]) -> list[tuple[bool, Any]]:
    if a[0] == "bin" and a[1] in ops:
        left = _flat(a[2], ops)
        right = _flat(a[3], ops)
        inv = a[1] in ("-", "/")
        return left + [((not f) if inv else f, n) for f, n in right]
    return [(False, a)]


def evb(a: Any, vals: list[Any]) -> Any:
    """Three-valued exact evaluation with a forward-error bound that is sound for any association
    order inside a maximal +/- chain and inside a maximal */÷ chain.

    vals[i] is a Fraction or BOT. Returns BOT or (value: Fraction, bound: Fraction).
    """
    k = a[0]
    if k == "leaf":
        v = vals[a[1]]
        return BOT if v is BOT else (F(v), F(0))
    if k == "const":
        return (F(a[1]), F(0))
    if k == "un":
        x = evb(a[2], vals)
        if x is BOT:
            return BOT
        v, e = x
        if a[1] == "clip":
            lo, hi = a[3]
            if lo is not None:
                v = max(v, F(lo))
            if hi is not None:
                v = min(v, F(hi))
            return (v, e)
        return ((max(v, 0) if a[1] == "consumption" else max(-v, 0)), e)
    op = a[1]
    if op in ("min", "max"):
        l, r = evb(a[2], vals), evb(a[3], vals)
        if l is BOT or r is BOT:
            return BOT
        return ((min(l[0], r[0]) if op == "min" else max(l[0], r[0])), max(l[1], r[1]))
    if op in ("+", "-"):
        terms = [(neg, evb(n, vals)) for neg, n in _flat(a, ("+", "-"))]
        if any(t is BOT for _, t in terms):
            return BOT
        v = sum((-t[0] if neg else t[0]) for neg, t in terms)
        mag = sum(abs(t[0]) + t[1] for _, t in terms)
        e = sum(t[1] for _, t in terms) + len(terms) * EPS * mag
        return (v, e)
    # tree semantics first: a/(b/c) is undefined for c == 0 although the flattened chain a*c/b is not
    if _chain_div_by_zero(a, vals):
        return BOT
    fac = [(inv, evb(n, vals)) for inv, n in _flat(a, ("*", "/"))]
    if any(t is BOT for _, t in fac):
        return BOT
    v = F(1)
    rel = F(0)
    for inv, (x, e) in fac:
        if inv and x == 0 and e == 0:
            return BOT  # division by an exact zero: undefined
        if e >= abs(x) and (inv or e > 0):
            if not (x == 0 and not inv and e == 0):
                raise IllConditioned()
        v = v / x if inv else v * x
        if x != 0 and e > 0:
            rel += e / (abs(x) - e)
    rel += len(fac) * EPS
    return (v, abs(v) * rel * 2)


def _chain_div_by_zero(a: Any, vals: list[Any]) -> bool:
    """Within one maximal */÷ chain: some '/' node's divisor is exactly zero."""
    if not (a[0] == "bin" and a[1] in ("*", "/")):
        return False
    if _chain_div_by_zero(a[2], vals) or _chain_div_by_zero(a[3], vals):
        return True
    if a[1] == "/":
        r = evb(a[3], vals)
        if r is not BOT and r[0] == 0 and r[1] > 0:
            # exactly zero in rationals but computed with rounding (cancellation): the float divisor
            # need not be zero; the outcome is not decidable by the reference
            raise IllConditioned()
        return r is not BOT and r[0] == 0
    return False


def max_abs(a: Any, vals: list[Any]) -> F:
    """Largest exact magnitude over all sub-expressions (0 for missing ones): used to recognise float overflow."""
    try:
        r = evb(a, vals)
    except IllConditioned:
        r = BOT
    m = F(0) if r is BOT else abs(r[0])
    if a[0] == "un":
        return max(m, max_abs(a[2], vals))
    if a[0] == "bin":
        return max(m, max_abs(a[2], vals), max_abs(a[3], vals))
    return m


def min_abs_nonzero(a: Any, vals: list[Any]) -> F | None:
    """Smallest non-zero exact magnitude over all sub-expressions: used to recognise float underflow."""
    try:
        r = evb(a, vals)
    except IllConditioned:
        r = BOT
    cands = [] if (r is BOT or r[0] == 0) else [abs(r[0])]
    kids = [a[2]] if a[0] == "un" else ([a[2], a[3]] if a[0] == "bin" else [])
    for k in kids:
        m = min_abs_nonzero(k, vals)
        if m is not None:
            cands.append(m)
    return min(cands) if cands else None


def div_by_zero_somewhere(a: Any, vals: list[Any]) -> bool:
    """True iff some '/' node has an exactly-zero (non-missing) divisor."""
    if a[0] in ("leaf", "const"):
        return False
    if a[0] == "un":
        return div_by_zero_somewhere(a[2], vals)
    if div_by_zero_somewhere(a[2], vals) or div_by_zero_somewhere(a[3], vals):
        return True
    if a[1] == "/":
        try:
            r = evb(a[3], vals)
        except IllConditioned:
            return False
        return r is not BOT and r[0] == 0 and r[1] == 0
    return False


# ------------------------------------------------------------------ building the real engines


def build_api(a: Any, engines: list[Any], nest: bool = False, depth: int = 0, counter: list[int] | None = None,
              reuse: int = 0) -> Any:
    """With `nest`, sub-expressions at odd depths are built into engines of their own (`.build(name)` with default
    arguments) before they are used as operands of the enclosing expression. With `reuse`, every intermediate builder
    object is also used as the operand of another, discarded expression (bit 1: before, bit 2: after its real use), the
    way a program does that keeps a sub-expression in a variable and builds two formulas from it."""
    from frequenz.quantities import Quantity

    counter = counter if counter is not None else [0]

    def is_builder(r: Any) -> bool:
        return hasattr(r, "build") and not hasattr(r, "new_receiver") and not isinstance(r, list)

    def sub(x: Any) -> Any:
        r = build_api(x, engines, nest, depth + 1, counter, reuse)
        if nest and (depth + 1) % 2 == 1 and x[0] in ("bin", "un") and hasattr(r, "build") and not hasattr(r, "new_receiver"):
            counter[0] += 1
            return r.build(f"sub{counter[0]}")
        return r

    k = a[0]
    if k == "leaf":
        return engines[a[1]]
    if k == "const":
        return a
    if k == "un":
        return getattr(sub(a[2]), a[1])()
    op = a[1]
    left = sub(a[2])
    right = sub(a[3])
    if isinstance(right, list):
        right = Quantity(right[1]) if op in ("+", "-", "min", "max") else right[1]
    if reuse & 1 and is_builder(left):
        _ = left - engines[0]  # another expression over the same sub-expression object
    if reuse & 4 and is_builder(left):
        # the program also builds the sub-expression into a formula of its own - under the name the enclosing formula
        # gets later (names are free labels)
        _ = left.build("f")
    if reuse & 4 and is_builder(right):
        _ = right.build("f", nones_are_zeros=True)
        _ = right.build("f")
    if op == "+":
        res = left + right
    elif op == "-":
        res = left - right
    elif op == "*":
        res = left * right
    elif op == "/":
        res = left / right
    else:
        res = getattr(left, op)(right)
    if reuse & 2 and is_builder(left):
        _ = left * 3.0
    if reuse & 2 and is_builder(right):
        _ = right + engines[0]
    return res


def push_ast(fb: Any, a: Any, mk_rx: Any, leaf_naz: list[bool], parent: str | None = None, right: bool = False) -> None:
    """Drive a FormulaBuilder from the AST (in-order pushes with the minimal parentheses), incl. clip steps."""
    k = a[0]
    if k == "leaf":
        fb.push_metric(f"#{a[1] + 1}", mk_rx(a[1]), nones_are_zeros=leaf_naz[a[1]])
    elif k == "const":
        fb.push_constant(float(a[1]))
    elif k == "un":  # clip
        lo, hi = a[3]
        wrap = a[2][0] != "leaf"
        if wrap:
            fb.push_oper("(")
        push_ast(fb, a[2], mk_rx, leaf_naz)
        if wrap:
            fb.push_oper(")")
        fb.push_clipper(lo, hi)
    else:
        op = a[1]
        need = parent is not None and (PREC[op] < PREC[parent] or (right and PREC[op] == PREC[parent]))
        if need:
            fb.push_oper("(")
        push_ast(fb, a[2], mk_rx, leaf_naz, op, False)
        fb.push_oper(op)
        push_ast(fb, a[3], mk_rx, leaf_naz, op, True)
        if need:
            fb.push_oper(")")


def encode(v: float, miss: str | None) -> Any:
    from frequenz.quantities import Quantity

    if miss is None:
        return Quantity(float(v))
    if miss == "none":
        return None
    return Quantity({"nan": float("nan"), "inf": math.inf, "-inf": -math.inf}[miss])


async def run_program(prog: dict[str, Any], out: dict[str, Any], pace_timeout: float = 5.0) -> None:
    """Stream the program's vectors through the real engine; record the outputs per round."""
    from frequenz.channels import Broadcast
    from frequenz.client.microgrid import ComponentMetricId
    from frequenz.quantities import Quantity

    from frequenz.sdk._internal._channels import ChannelRegistry
    from frequenz.sdk.microgrid._data_sourcing import ComponentMetricRequest
    from frequenz.sdk.timeseries import Sample
    from frequenz.sdk.timeseries.formula_engine._formula_engine import (FormulaBuilder,
                                                                        FormulaEngine)
    from frequenz.sdk.timeseries.formula_engine._resampled_formula_builder import \
        ResampledFormulaBuilder
    from frequenz.sdk.timeseries.formula_engine._tokenizer import Tokenizer, TokenType

    n = prog["nleaf"]
    naz = bool(prog.get("naz", False))
    leaf_naz = prog.get("leaf_naz") or [False] * n
    mode = prog["mode"]
    senders = []
    if mode == "string":
        reg = ChannelRegistry(name="reg")
        sub = Broadcast(name="sub")
        _keep = sub.new_receiver(limit=1000)
        b = ResampledFormulaBuilder("ns", "f", reg, sub.new_sender(), ComponentMetricId.ACTIVE_POWER, Quantity)
        eng = b.from_string(prog["src"], nones_are_zeros=naz)
        for i in range(n):
            name = ComponentMetricRequest("ns", i + 1, ComponentMetricId.ACTIVE_POWER, None).get_channel_name()
            senders.append(reg.get_or_create(Sample[Quantity], name).new_sender())
    elif mode == "pool":
        # through FormulaEnginePool.from_string (what LogicalMeter.start_formula uses): the same formula string is
        # first started for another metric (fed with other numbers), then for the metric under test
        from frequenz.sdk.timeseries.formula_engine._formula_engine_pool import FormulaEnginePool

        reg = ChannelRegistry(name="reg")
        sub = Broadcast(name="sub")
        _keep = sub.new_receiver(limit=1000)
        pool = FormulaEnginePool("ns", reg, sub.new_sender())
        # (string formulas exist for every metric, not only for powers)
        under_test = getattr(ComponentMetricId, prog.get("pool_metric") or "ACTIVE_POWER")
        decoy = pool.from_string(prog["src"], ComponentMetricId.REACTIVE_POWER, nones_are_zeros=naz)
        if prog.get("pool_prior_other_naz"):
            # somebody else started the same formula for the same metric before, with the other nones_are_zeros
            pool.from_string(prog["src"], under_test, nones_are_zeros=not naz)
        eng = pool.from_string(prog["src"], under_test, nones_are_zeros=naz)
        out["pool_same_engine_again"] = pool.from_string(prog["src"], under_test, nones_are_zeros=naz) is eng
        decoy_rx = decoy.new_receiver(max_size=200)
        decoy_senders = []
        for i in range(n):
            name = ComponentMetricRequest("ns", i + 1, under_test, None).get_channel_name()
            senders.append(reg.get_or_create(Sample[Quantity], name).new_sender())
            dname = ComponentMetricRequest("ns", i + 1, ComponentMetricId.REACTIVE_POWER, None).get_channel_name()
            decoy_senders.append(reg.get_or_create(Sample[Quantity], dname).new_sender())

        async def feed_decoy() -> None:
            for k, vec in enumerate(prog["vectors"]):
                for i in range(n):
                    await decoy_senders[i].send(Sample(T0 + timedelta(seconds=k), Quantity(float(vec[i]) + 1000.0 + i)))
                await asyncio.sleep(0.004)
                while decoy_rx._q:  # noqa: SLF001
                    decoy_rx.consume()

        out["_decoy_task"] = asyncio.create_task(feed_decoy())
    elif mode == "api3":
        # 3-phase engines composed through the operator API (HigherOrderFormulaBuilder3Phase): leaf i, phase p
        from frequenz.sdk.timeseries.formula_engine._formula_engine import FormulaEngine3Phase

        chans3 = [[Broadcast(name=f"c{i}p{p}") for p in range(3)] for i in range(n)]
        senders3 = [[c.new_sender() for c in row] for row in chans3]
        names = prog.get("leaf_names") or [f"e{i}" for i in range(n)]
        leafs = [FormulaEngine3Phase(names[i], Quantity, tuple(
            FormulaEngine.from_receiver(f"{names[i]}p{p}", chans3[i][p].new_receiver(limit=200), Quantity) for p in range(3)))
            for i in range(n)]
        eng = build_api(prog["ast"], leafs).build("f", nones_are_zeros=naz)
        out["formula_str"] = "3-phase " + str(prog["ast"])
        rx = eng.new_receiver(max_size=200)
        await asyncio.sleep(0)
        for k, vec in enumerate(prog["vectors"]):
            ts = T0 + timedelta(seconds=k)
            for i in range(n):
                for p in range(3):
                    await senders3[i][p].send(Sample(ts, Quantity(float(vec[i]) * PHASE_FACTORS[p])))
            got = []
            try:
                got.append(await asyncio.wait_for(rx.receive(), timeout=pace_timeout))
            except asyncio.TimeoutError:
                pass
            await asyncio.sleep(0.01)
            while rx._q:  # noqa: SLF001
                got.append(rx.consume())
            out["rounds"].append([(o.timestamp, [None if v is None else v.base_value
                                                 for v in (o.value_p1, o.value_p2, o.value_p3)]) for o in got])
        try:
            await eng._stop()  # noqa: SLF001
        except Exception:  # pylint: disable=broad-except
            pass
        return
    else:
        chans = [Broadcast(name=f"c{i}") for i in range(n)]
        senders = [c.new_sender() for c in chans]
        if mode == "builder":
            fb = FormulaBuilder("t", Quantity)
            for tok in Tokenizer(prog["src"]):
                if tok.type == TokenType.COMPONENT_METRIC:
                    i = int(tok.value) - 1
                    fb.push_metric(f"#{tok.value}", chans[i].new_receiver(limit=200), nones_are_zeros=leaf_naz[i])
                else:
                    fb.push_oper(tok.value)
            eng = fb.build()
        elif mode == "builderx":
            fb = FormulaBuilder("t", Quantity)
            push_ast(fb, prog["ast"], lambda i: chans[i].new_receiver(limit=200), leaf_naz)
            eng = fb.build()
        else:
            names = prog.get("leaf_names") or [f"e{i}" for i in range(n)]
            engines = [FormulaEngine.from_receiver(names[i], chans[i].new_receiver(limit=200), Quantity,
                                                   nones_are_zeros=leaf_naz[i]) for i in range(n)]
            top = build_api(prog["ast"], engines, nest=bool(prog.get("nest")), reuse=int(prog.get("reuse") or 0))
            # (the default of `nones_are_zeros` is exercised as well: it must mean False)
            eng = top.build("f") if (prog.get("nest") and not naz) else top.build("f", nones_are_zeros=naz)
    out["formula_str"] = str(eng)
    rx = eng.new_receiver(max_size=200)
    await asyncio.sleep(0)
    missing = prog.get("missing") or [[None] * n for _ in prog["vectors"]]
    rounds = out["rounds"]
    # streams that begin earlier than others: extra, older samples on some inputs (the formula has to skip them)
    from datetime import timezone as _tz

    _zones = [_tz(timedelta(minutes=m)) for m in (0, 330, -210, 345)]

    def _z(ts: Any, i: int) -> Any:
        # the same instant, written in a different zone on every input (aware datetimes denote instants)
        return ts.astimezone(_zones[i % 4]) if prog.get("tzmix") else ts

    for i, extra in enumerate(prog.get("prelude") or []):
        for j in range(extra, 0, -1):
            await senders[i].send(Sample(_z(T0 - timedelta(seconds=j), i), Quantity(9000.0 + 10 * i + j)))
    if prog.get("prelude"):
        await asyncio.sleep(0.01)
    gap = prog.get("gap")  # [round, leaf]: that stream has no sample at all for that timestamp
    for k, vec in enumerate(prog["vectors"]):
        ts = T0 + timedelta(seconds=k)
        for i in range(n):
            if gap and gap[0] == k and gap[1] == i:
                continue
            await senders[i].send(Sample(_z(ts, i), encode(vec[i], missing[k][i])))
        got = []
        try:
            s = await asyncio.wait_for(rx.receive(), timeout=pace_timeout)
            got.append(s)
        except asyncio.TimeoutError:
            pass
        await asyncio.sleep(0.01)
        while rx._q:  # noqa: SLF001  (extra outputs for one input round would be a violation)
            got.append(rx.consume())
        rounds.append([(o.timestamp, None if o.value is None else o.value.base_value) for o in got])
    if out.get("_decoy_task") is not None:
        out.pop("_decoy_task").cancel()
    try:
        await eng._stop()  # noqa: SLF001
    except Exception:  # pylint: disable=broad-except
        pass


def ref_values(prog: dict[str, Any], k: int) -> list[Any]:
    """Per-leaf reference inputs of round k (Fraction or BOT) given the zeros configuration."""
    n = prog["nleaf"]
    missing = prog.get("missing")
    vals: list[Any] = []
    for i in range(n):
        m = missing[k][i] if missing else None
        if m is None:
            vals.append(F(prog["vectors"][k][i]))
        else:
            zero = bool(prog.get("naz")) if prog["mode"] not in ("builder", "builderx") else False
            zero = zero or bool((prog.get("leaf_naz") or [False] * n)[i])
            vals.append(F(0) if zero else BOT)
    return vals
