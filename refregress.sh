#!/bin/bash
# Re-run each property's own quick check (40 % budget) against the kept behaviour-preserving refactorings of that
# property, one worker per property in its own scratch worktree:   ./refregress.sh C01 C07 ...
cd "$(dirname "$0")"
mkdir -p /tmp/work
one() {
  pid=$1
  wt=/tmp/work/r$pid
  [ -d $wt ] || git -C /repo worktree add --detach $wt HEAD > /dev/null 2>&1
  git -C $wt checkout -q -- . ; git -C $wt checkout -q --detach $(git -C /repo rev-parse HEAD) 2>/dev/null
  tmp=/tmp/work/refac-$pid; rm -rf $tmp; mkdir -p $tmp
  for d in refactors/$pid-*; do x=${d##*-}; cp $d/patch.diff $tmp/refactor_${pid}_$x.diff; done
  VERIF_REPO=$wt /venv/bin/python -m vf.refactest $tmp --scale=0.4 --own > /tmp/work/refregress-$pid.log 2>&1
  echo "$pid: $(grep -c silent /tmp/work/refregress-$pid.log) silent; other: $(grep -v silent /tmp/work/refregress-$pid.log | tr '\n' ';')"
}
export -f one
printf "%s\n" "$@" | xargs -P 4 -I{} bash -c "one {}"
