import asyncio, random, sys
from datetime import datetime, timezone, timedelta
from frequenz.channels import Broadcast
from frequenz.client.microgrid import ComponentCategory
from frequenz.quantities import Power
from frequenz.sdk._internal._channels import ChannelRegistry
from frequenz.sdk.timeseries._base_types import Bounds, SystemBounds
from frequenz.sdk.microgrid import _data_pipeline, _power_distributing
from frequenz.sdk.microgrid._power_managing import PowerManagingActor, Proposal, ReportRequest
from frequenz.sdk.microgrid._power_managing._base_classes import _Report
W=Power.from_watts
CID=frozenset({1,2})
async def run(seed):
    rng=random.Random(seed)
    bounds_ch=Broadcast[SystemBounds](name='b',resend_latest=True)
    class FakePool:
        class _SPB:
            def new_receiver(s,*a,**k): return bounds_ch.new_receiver()
        _system_power_bounds=_SPB()
    _data_pipeline.new_battery_pool=lambda **kw: FakePool()
    prop_ch=Broadcast[Proposal](name='p'); sub_ch=Broadcast[ReportRequest](name='s')
    req_ch=Broadcast[_power_distributing.Request](name='r'); res_ch=Broadcast[_power_distributing.Result](name='res')
    reg=ChannelRegistry(name='reg')
    req_rx=req_ch.new_receiver(limit=1000)
    actor=PowerManagingActor(prop_ch.new_receiver(),sub_ch.new_receiver(),req_ch.new_sender(),res_ch.new_receiver(),reg,component_category=ComponentCategory.BATTERY)
    actor.start()
    ptx=prop_ch.new_sender(); btx=bounds_ch.new_sender()
    await asyncio.sleep(0)
    bad=[]
    log=[]
    sb=None
    async def drain(ev):
        for _ in range(20): await asyncio.sleep(0)
        while True:
            try:
                r=req_rx._q.popleft() if False else None
            except Exception: pass
            break
    def check(ev):
        nonlocal sb
        while req_rx._q:
            r=req_rx._q.popleft()
            a=actor._set_power_group.get_target_power(CID); b=actor._set_op_power_group.get_target_power(CID)
            exp=(a.as_watts() if a else 0)+(b.as_watts() if b else 0)
            got=r.power.as_watts()
            ok_sum=abs(got-exp)<1e-6
            ok_b= sb is None or sb.inclusion_bounds is None or (sb.inclusion_bounds.lower.as_watts()-1e-6<=got<=sb.inclusion_bounds.upper.as_watts()+1e-6)
            if not ok_sum or not ok_b: bad.append((ev,got,a,b,sb.inclusion_bounds if sb else None, 'sum' if not ok_sum else 'bounds'))
    t=0.0
    for step in range(rng.randint(3,12)):
        k=rng.random()
        if k<0.35 or step==0:
            lo=-rng.choice([0,100,500,1000]); hi=rng.choice([0,100,500,1000])
            sb=SystemBounds(timestamp=datetime.now(timezone.utc),inclusion_bounds=Bounds(W(lo),W(hi)),exclusion_bounds=Bounds(W(0),W(0)))
            ev=('bounds',lo,hi); await btx.send(sb)
        else:
            op=rng.random()<0.5
            pref=rng.choice([None,-800,-300,-50,0,50,300,800])
            ev=('prop','op' if op else 'reg',pref)
            await ptx.send(Proposal(source_id='op' if op else 'reg',preferred_power=None if pref is None else W(pref),bounds=Bounds(None,None),component_ids=CID,priority=1,creation_time=asyncio.get_event_loop().time(),set_operating_point=op))
        log.append(ev)
        for _ in range(30): await asyncio.sleep(0)
        check(list(log))
    await actor.stop()
    return bad
async def main():
    nb=0; ex=None; kinds={}
    for s in range(int(sys.argv[1]),int(sys.argv[2])):
        b=await run(s)
        if b:
            nb+=1; ex=ex or (s,b[0])
            for x in b: kinds[x[-1]]=kinds.get(x[-1],0)+1
    print('bad runs',nb,kinds,'\n e.g.',ex)
asyncio.run(main())
