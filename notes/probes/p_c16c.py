import asyncio, random, sys, logging, types, math
sys.path.insert(0,'/tmp/probe'); sys.path.insert(0,'/repo')
from vloop import run_virtual, EPOCH
from datetime import datetime, timezone, timedelta
from frequenz.channels import Broadcast
from frequenz.client.microgrid import (Component, ComponentCategory, Connection, InverterType, BatteryComponentState, BatteryRelayState,
    InverterComponentState, BatteryError, BatteryErrorCode, ErrorLevel, InverterError, InverterErrorCode)
from frequenz.sdk.microgrid import connection_manager
from frequenz.sdk.microgrid.component_graph import _MicrogridComponentGraph
from frequenz.sdk.microgrid._power_distributing._component_status import BatteryStatusTracker, ComponentStatus, ComponentStatusEnum, SetPowerResult
from tests.utils.component_data_wrapper import BatteryDataWrapper, InverterDataWrapper
logging.disable(logging.CRITICAL)
E=ComponentStatusEnum
stats={}
def note(k,ex): stats.setdefault(k,[0,ex])[0]+=1
MAXAGE=5.0; MAXBLOCK=8.0
def one(seed):
    rng=random.Random(seed)
    comps={Component(1,ComponentCategory.GRID),Component(2,ComponentCategory.METER),Component(8,ComponentCategory.INVERTER,InverterType.BATTERY),Component(9,ComponentCategory.BATTERY)}
    conns={Connection(1,2),Connection(2,8),Connection(8,9)}
    graph=_MicrogridComponentGraph(comps,conns)
    bch=Broadcast(name='b'); ich=Broadcast(name='i')
    class Api:
        async def battery_data(s,i,maxsize=0): return bch.new_receiver(limit=500)
        async def inverter_data(s,i,maxsize=0): return ich.new_receiver(limit=500)
    connection_manager._CONNECTION_MANAGER=types.SimpleNamespace(component_graph=graph,api_client=Api())
    events=[]   # (t, kind, payload)  harness log
    statuses=[] # (t, status)
    async def main():
        stc=Broadcast[ComponentStatus](name='s'); spc=Broadcast[SetPowerResult](name='sp')
        srx=stc.new_receiver(limit=1000)
        tr=BatteryStatusTracker(9,timedelta(seconds=MAXAGE),timedelta(seconds=MAXBLOCK),stc.new_sender(),spc.new_receiver(limit=100))
        tr.start()
        btx,itx,sptx=bch.new_sender(),ich.new_sender(),spc.new_sender()
        await asyncio.sleep(0.001)
        loop=asyncio.get_event_loop()
        async def collect():
            async for s in srx: statuses.append((loop.time(),s.value))
        ct=asyncio.create_task(collect())
        def now(): return datetime.now(timezone.utc)
        def bmsg(fault=None,age=0.0):
            kw=dict(component_state=BatteryComponentState.IDLE,relay_state=BatteryRelayState.CLOSED,capacity=1000.0)
            if fault=='state': kw['component_state']=BatteryComponentState.ERROR
            if fault=='relay': kw['relay_state']=BatteryRelayState.OPENED
            if fault=='cap': kw['capacity']=math.nan
            if fault=='crit': kw['errors']=[BatteryError(code=BatteryErrorCode.UNSPECIFIED,level=ErrorLevel.CRITICAL,message="x")]
            if fault=='warn': kw['errors']=[BatteryError(code=BatteryErrorCode.UNSPECIFIED,level=ErrorLevel.WARN,message="x")]
            return BatteryDataWrapper(9,now()-timedelta(seconds=age),**kw)
        def imsg(fault=None,age=0.0):
            kw=dict(component_state=InverterComponentState.IDLE)
            if fault=='state': kw['component_state']=InverterComponentState.ERROR
            if fault=='crit': kw['errors']=[InverterError(code=InverterErrorCode.UNSPECIFIED,level=ErrorLevel.CRITICAL,message="x")]
            return InverterDataWrapper(8,now()-timedelta(seconds=age),**kw)
        T=0.0
        bsil=isil=0.0
        while loop.time()<60:
            dt=rng.choice([0.2,0.2,0.5,1.0]); await asyncio.sleep(dt)
            t=loop.time()
            if bsil>0: bsil-=dt
            elif rng.random()<0.04: bsil=rng.choice([2.0,MAXAGE-0.1,MAXAGE+0.3,3*MAXAGE])
            else:
                f=rng.choice([None]*12+['state','relay','cap','crit','warn']); age=rng.choice([0]*10+[MAXAGE-0.5,MAXAGE+0.5])
                healthy = f in (None,'warn') and age<=MAXAGE
                events.append((loop.time(),'bat',healthy)); await btx.send(bmsg(f,age)); await asyncio.sleep(0.002)
            if isil>0: isil-=dt
            elif rng.random()<0.04: isil=rng.choice([2.0,MAXAGE-0.1,MAXAGE+0.3,3*MAXAGE])
            else:
                f=rng.choice([None]*12+['state','crit']); age=rng.choice([0]*10+[MAXAGE+0.5])
                healthy = f is None and age<=MAXAGE
                events.append((loop.time(),'inv',healthy)); await itx.send(imsg(f,age)); await asyncio.sleep(0.002)
            if rng.random()<0.15:
                k=rng.choice(['fail','fail','ok','none'])
                events.append((loop.time(),'sp',k))
                await sptx.send(SetPowerResult(succeeded={9} if k=='ok' else set(),failed={9} if k=='fail' else set()))
            await asyncio.sleep(0.0005)
        ct.cancel(); await tr.stop()
    run_virtual(main)
    # ---- reference check (safety direction + only-on-change + blocking sequence)
    # last status as function of time
    if any(a[1]==b[1] for a,b in zip(statuses,statuses[1:])): note('DUPLICATE-NOTIFICATION',(seed,statuses[:6]))
    # safety: sample times just after each event and at 0.1s grid
    def status_at(t):
        cur=E.NOT_WORKING
        for (ts,s) in statuses:
            if ts<=t: cur=s
            else: break
        return cur
    def ok(kind,t):
        last=None
        for (te,k,h) in events:
            if k==kind and te<=t: last=(te,h)
        return last is not None and last[1] and (t-last[0])<=MAXAGE+1e-3
    D=0.001
    # (1) every WORKING/UNCERTAIN report must be justified at its own instant
    for (ts,st) in statuses:
        if st in (E.WORKING,E.UNCERTAIN) and not (ok('bat',ts) and ok('inv',ts)):
            note('UNSAFE-REPORT',(seed,ts,st,[e for e in events if ts-7<e[0]<=ts][-8:])); break
    # (2) every disqualifying instant must be followed by NOT_WORKING within D
    dis=[]
    for kind in ('bat','inv'):
        evs=[e for e in events if e[1]==kind]
        for j,(te,_,h) in enumerate(evs):
            if not h: dis.append((te,kind,'unhealthy-msg'))
            nxt=evs[j+1][0] if j+1<len(evs) else 1e9
            if h and nxt>te+MAXAGE+1e-6 and te+MAXAGE<59: dis.append((te+MAXAGE,kind,'silence'))
    for (d,kind,why) in sorted(dis):
        before=status_at(d-1e-6)
        if before in (E.WORKING,E.UNCERTAIN):
            if not any(d-1e-6<=ts<=d+D and st==E.NOT_WORKING for ts,st in statuses):
                note('LATE-OR-MISSING-NOT_WORKING:'+why,(seed,d,kind,before,[x for x in statuses if d-1<x[0]<d+6][:5])); break
    # (3) recovery: a healthy message of each kind present and fresh => WORKING/UNCERTAIN reported at the event that completes it
    for (te,k,h) in events:
        if k in('bat','inv') and h and ok('bat',te) and ok('inv',te):
            if status_at(te+D)==E.NOT_WORKING: note('STUCK-NOT-WORKING',(seed,te,[e for e in events if te-2<e[0]<=te],statuses[:6])); break
    # (4) blocking: after 'fail' while WORKING -> UNCERTAIN within D
    for (te,k,v) in events:
        if k=='sp' and v=='fail' and status_at(te-1e-6)==E.WORKING and ok('bat',te) and ok('inv',te):
            if status_at(te+D)!=E.UNCERTAIN and status_at(te+D)!=E.NOT_WORKING: note('FAIL-NOT-UNCERTAIN',(seed,te,status_at(te+D),[e for e in events if te-1<e[0]<=te+0.01])); break
    note('runs',None); note('status-msgs',None) if statuses else None
    stats['status-msgs'][0]+=len(statuses)-1 if statuses else 0
    for a in statuses: stats.setdefault('saw-'+a[1].name,[0,None])[0]+=1
for s in range(int(sys.argv[1]),int(sys.argv[2])):
    try: one(s)
    except Exception as e:
        import traceback; note('harness-exc '+type(e).__name__+str(e)[:80],(s,traceback.format_exc()[-700:]))
for k,(n,ex) in sorted(stats.items()): print(k,n,'\n   ',str(ex)[:900])
