import random, sys, math, logging
from fractions import Fraction as F
from datetime import datetime, timezone
from frequenz.client.microgrid import ComponentMetricId as M
from frequenz.sdk.timeseries.battery_pool._metric_calculator import SoCCalculator, CapacityCalculator
from frequenz.sdk.timeseries.battery_pool._component_metrics import ComponentMetricsData
logging.disable(logging.CRITICAL)
TS=datetime(2024,1,1,tzinfo=timezone.utc)
rng=random.Random(int(sys.argv[1])); N=int(sys.argv[2]); st={}
def note(k,ex): st.setdefault(k,[0,ex])[0]+=1
def ref(data,working):
    used=F(0); tot=F(0); n=0
    for b in working:
        d=data.get(b)
        if d is None or any(k not in d for k in ('cap','lo','hi','soc')): continue
        n+=1; cap,lo,hi,soc=(F(d[k]) for k in ('cap','lo','hi','soc'))
        w=cap*(hi-lo)
        if math.isclose(d['hi'],d['lo']): sc=F(0) if soc<lo else F(100)
        else: sc=min(max((soc-lo)/(hi-lo)*100,F(0)),F(100))
        used+=w*sc; tot+=w
    return n,used,tot
def mk(data):
    out={}
    for b,d in data.items():
        m={}
        if 'cap' in d: m[M.CAPACITY]=d['cap']
        if 'lo' in d: m[M.SOC_LOWER_BOUND]=d['lo']
        if 'hi' in d: m[M.SOC_UPPER_BOUND]=d['hi']
        if 'soc' in d: m[M.SOC]=d['soc']
        out[b]=ComponentMetricsData(b,TS,m)
    return out
for it in range(N):
    nb=rng.randint(1,6); bats=list(range(1,nb+1)); data={}
    for b in bats:
        if rng.random()<0.1: continue
        lo=rng.choice([0,5,10,20,rng.uniform(0,40)]); hi=rng.choice([lo,80,90,100,rng.uniform(lo,100)])
        d={'cap':rng.choice([0,1000,5000,98000,rng.uniform(1,1e5)]),'lo':lo,'hi':hi,'soc':rng.choice([lo,hi,rng.uniform(lo,hi) if hi>lo else lo,rng.uniform(0,100),lo-5,hi+5])}
        for k in list(d):
            if rng.random()<0.05: del d[k]
        data[b]=d
    working={b for b in bats if rng.random()<0.8}
    calc=SoCCalculator(set(bats)); cc=CapacityCalculator(set(bats))
    r=calc.calculate(mk(data),set(working)); c=cc.calculate(mk(data),set(working))
    n,used,tot=ref(data,working)
    if (r.value is None)!=(n==0): note('NONE-MISMATCH',(data,working,r)); continue
    if n==0: note('none-ok',None); continue
    v=r.value.as_percent()
    if not (0<=v<=100): note('OUT-OF-RANGE',(data,working,v))
    if tot>1e-6:
        e=float(used/tot)
        if not math.isclose(v,e,rel_tol=1e-9,abs_tol=1e-9): note('VALUE-MISMATCH',(data,working,v,e))
        else: note('value-ok',None)
        # monotone
        b=rng.choice([x for x in working if x in data and all(k in data[x] for k in('cap','lo','hi','soc'))])
        d2={k:dict(vv) for k,vv in data.items()}; d2[b]['soc']+=rng.uniform(0,30)
        v2=calc.calculate(mk(d2),set(working)).value.as_percent()
        if v2<v-1e-9: note('NOT-MONOTONE',(data,working,b,v,v2))
        f=rng.choice([1e-3,0.5,3,1e3]); d3={k:dict(vv) for k,vv in data.items()}
        for x in d3.values():
            if 'cap' in x: x['cap']*=f
        if tot*F(f)>1:
            v3=calc.calculate(mk(d3),set(working)).value.as_percent()
            if not math.isclose(v3,v,rel_tol=1e-9,abs_tol=1e-9): note('NOT-SCALE-INVARIANT',(data,working,f,v,v3))
    else: note('zero-weight',None)
    # capacity
    ncap=0; tc=F(0)
    for b in working:
        d=data.get(b)
        if d is None or any(k not in d for k in('cap','lo','hi')): continue
        ncap+=1; tc+=F(d['cap'])*(F(d['hi'])-F(d['lo']))/100
    if (c.value is None)!=(ncap==0): note('CAP-NONE-MISMATCH',(data,working,c))
    elif ncap and not math.isclose(c.value.as_watt_hours(),float(tc),rel_tol=1e-9,abs_tol=1e-9): note('CAP-MISMATCH',(data,working,c,float(tc)))
for k,(n,ex) in sorted(st.items()): print(k,n,'\n   ',str(ex)[:600])
