import random, sys, itertools, math
from datetime import datetime, timezone, timedelta
from frequenz.quantities import Power
from frequenz.sdk.timeseries._base_types import Bounds, SystemBounds
from frequenz.sdk.microgrid._power_managing._matryoshka import Matryoshka
from frequenz.sdk.microgrid._power_managing._base_classes import Proposal
W=Power.from_watts
TS=datetime(2024,1,1,tzinfo=timezone.utc)
CID=frozenset({1,2})
def mk(src,prio,pref,lo,hi,t=0.0):
    return Proposal(source_id=src,preferred_power=None if pref is None else W(pref),bounds=Bounds(None if lo is None else W(lo),None if hi is None else W(hi)),component_ids=CID,priority=prio,creation_time=t,set_operating_point=False)
def model(props,sl,su,el,eu):
    """returns (target candidates set or None if conflict, per-priority bounds)"""
    lo,hi=sl,su
    def carve(lo,hi):
        if el<lo<eu: lo=eu
        if el<hi<eu: hi=el
        return lo,hi
    zone = (el!=0 or eu!=0)
    if zone: 
        lo,hi=carve(lo,hi)
    if lo>hi: return None
    tgt={0.0}
    for p in sorted(props,key=lambda p:(p[1],p[0]),reverse=True):
        src,prio,pref,blo,bhi=p
        if pref is not None:
            if abs(pref)<1e-9 and lo<=0<=hi: tgt={0.0}
            else:
                x=min(max(pref,lo),hi)
                if zone and el<x<eu:
                    c=[]
                    if lo<=el: c.append(el)
                    if hi>=eu: c.append(eu)
                    if not c: return None
                    d=min(abs(v-pref) for v in c)
                    tgt={v for v in c if abs(abs(v-pref)-d)<1e-9}
                else: tgt={x}
        nlo=lo if blo is None else max(lo,blo); nhi=hi if bhi is None else min(hi,bhi)
        if zone: nlo,nhi=carve(nlo,nhi)
        if nlo>nhi: return None
        lo,hi=nlo,nhi
    return tgt
rng=random.Random(int(sys.argv[1])); N=int(sys.argv[2])
st={}
def note(k,ex): st.setdefault(k,[0,ex])[0]+=1
vals=[-1000,-500,-100,-50,-49,-10,0,10,49,50,100,500,1000]
for it in range(N):
    sl=rng.choice([-1000,-500,-60,-50,-20,0]); su=rng.choice([0,20,50,60,500,1000])
    if rng.random()<0.5: el,eu=0,0
    else: el=-rng.choice([0,10,50,100]); eu=rng.choice([0,10,50,100])
    sb=SystemBounds(timestamp=TS,inclusion_bounds=Bounds(W(sl),W(su)),exclusion_bounds=Bounds(W(el),W(eu)))
    n=rng.randint(1,5)
    props=[]
    for i in range(n):
        pref=rng.choice([None,None]+vals+[rng.uniform(-1100,1100)])
        blo=rng.choice([None,None]+vals); bhi=rng.choice([None,None]+vals)
        if blo is not None and bhi is not None and blo>bhi: blo,bhi=bhi,blo
        props.append((f"a{i}",rng.randint(0,3),pref,blo,bhi))
    # dedupe by (prio,src) naturally unique by src
    results=set()
    orders=list(itertools.permutations(range(n))) if n<=3 else [rng.sample(range(n),n) for _ in range(6)]
    for order in orders:
        m=Matryoshka(max_proposal_age=timedelta(seconds=60))
        t=None
        for i in order:
            # sometimes first send a stale version that gets replaced
            if rng.random()<0.3:
                s,p,_,_,_=props[i]
                m.calculate_target_power(CID,mk(s,p,rng.choice(vals),None,None),sb,True)
            t=m.calculate_target_power(CID,mk(*props[i]),sb,True)
        results.add(round(t.as_watts(),6))
    if len(results)>1: note('order-dependent',(sl,su,el,eu,props,results)); continue
    t=results.pop()
    if not(sl-1e-9<=t<=su+1e-9): note('outside-incl',(sl,su,el,eu,props,t))
    if abs(t)>1e-9 and (el+1e-9<t<eu-1e-9): note('in-excl',(sl,su,el,eu,props,t))
    exp=model(props,sl,su,el,eu)
    if exp is None: note('conflict(skipped C04)',None); continue
    if not any(abs(t-e)<1e-6 for e in exp): note('C04-mismatch',(sl,su,el,eu,props,t,exp))
    else: note('ok',None)
for k,(n,ex) in sorted(st.items()): print(k,n,'\n   ',ex)
