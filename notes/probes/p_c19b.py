import asyncio, logging, random, sys
from datetime import datetime, timezone, timedelta
from frequenz.channels import Broadcast, Receiver
from frequenz.quantities import Quantity
from frequenz.sdk.timeseries import Sample
from frequenz.sdk.timeseries.formula_engine._formula_engine import FormulaBuilder
from frequenz.sdk.timeseries.formula_engine._formula_steps import FallbackMetricFetcher
logging.disable(logging.CRITICAL)
T0=datetime(2024,1,1,tzinfo=timezone.utc)
class FB(FallbackMetricFetcher):
    def __init__(s,chan): s._chan=chan; s._rx=None; s.started_at=None
    @property
    def name(s): return 'fb'
    @property
    def is_running(s): return s._rx is not None
    def start(s): s._rx=s._chan.new_receiver(limit=200); s.started_at=s.clock[0]
    async def ready(s):
        if s._rx is None: s.start()
        return await s._rx.ready()
    def consume(s): return s._rx.consume()
def smp(k,v): return Sample(T0+timedelta(seconds=k), None if v is None else Quantity(v))
async def run(seed, close_primary_at=None, verbose=False):
    rng=random.Random(seed)
    N=rng.randint(6,16)
    pc=Broadcast[Sample[Quantity]](name='p'); fc=Broadcast[Sample[Quantity]](name='f'); oc=Broadcast[Sample[Quantity]](name='o')
    fb=FB(fc); fb.clock=[0]
    b=FormulaBuilder('t',Quantity)
    b.push_metric('#1',pc.new_receiver(limit=200),nones_are_zeros=False,fallback=fb)
    b.push_oper('+'); b.push_metric('#2',oc.new_receiver(limit=200),nones_are_zeros=False)
    eng=b.build(); rx=eng.new_receiver(max_size=500)
    ps,fs,os_=pc.new_sender(),fc.new_sender(),oc.new_sender()
    pmask=[rng.random()<0.6 for _ in range(N)]; fmask=[rng.random()<0.8 for _ in range(N)]
    if rng.random()<0.3: pmask=[True]*rng.randint(1,N-1); pmask+= [False]*(N-len(pmask))
    lag=rng.choice([0,0,1,2]); # fallback delivered `lag` steps after primary
    await asyncio.sleep(0)
    closed=False
    for k in range(N+lag):
        if k<N:
            if close_primary_at is not None and k==close_primary_at and not closed:
                await pc.close(); closed=True
            if not closed: await ps.send(smp(k,1000+k if pmask[k] else None))
            await os_.send(smp(k,(k+1)*1e6))
        kk=k-lag
        if 0<=kk<N:
            fb.clock[0]=kk+1
            await fs.send(smp(kk,2000+kk if fmask[kk] else None))
        for _ in range(rng.choice([0,3,10])): await asyncio.sleep(0)
        # pace: do not run more than 3 rounds ahead of the engine
        for _ in range(200):
            if len(rx._q) >= min(k,N-1)-3-lag: break
            await asyncio.sleep(0)
    for _ in range(50): await asyncio.sleep(0)
    outs=[]
    while rx._q: s=rx._q.popleft(); outs.append(((s.timestamp-T0).seconds, None if s.value is None else s.value.base_value))
    await eng._stop()
    # oracle
    f=next((k for k in range(N) if not pmask[k]),None)
    if close_primary_at is not None: f=min(f if f is not None else N, close_primary_at)
    problems=[]
    idx=[o[0] for o in outs]
    exp_idx=list(range(len(outs)))
    if idx!=exp_idx: problems.append(('index-seq',idx))
    for k,v in outs:
        if k>=N: continue
        pvalid = pmask[k] and not (closed and close_primary_at is not None and k>=close_primary_at)
        if v is None:
            if pvalid: problems.append(('none-but-primary-valid',k))
            elif fb.started_at is not None and k>=max(fb.started_at,f+1) and fmask[k]: problems.append(('none-but-fallback-valid',k,fb.started_at))
        else:
            other=round(v//1e6); term=v-other*1e6
            if other!=k+1: problems.append(('other-term-misaligned',k,v))
            if pvalid:
                if term!=1000+k: problems.append(('primary-valid-but-term',k,term))
            else:
                if term!=2000+k: problems.append(('fallback-term-wrong-index',k,term))
                if fb.started_at is None or k<max(fb.started_at,f+1): problems.append(('fallback-too-early?',k))
    if len(outs)<N-1: problems.append(('missing-outputs',len(outs),N))
    return problems,(N,pmask,fmask,lag,close_primary_at,outs)
async def main():
    a,b=int(sys.argv[1]),int(sys.argv[2])
    for mode in ('noclose',):
        stats={}
        for s in range(a,b):
            rng=random.Random(s*7+1)
            cp=None if mode=='noclose' else rng.randint(0,5)
            try: pr,info=await asyncio.wait_for(run(s,cp),5)
            except asyncio.TimeoutError: pr,info=[('timeout',)],None
            for p in pr: stats.setdefault(p[0],[0,(s,p,info)])[0]+=1
            if not pr: stats.setdefault('ok',[0,None])[0]+=1
        print('MODE',mode)
        for k,(n,ex) in sorted(stats.items()): print('  ',k,n,'\n      ',str(ex)[:700])
asyncio.run(main())
