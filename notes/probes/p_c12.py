import random, sys, math
from datetime import datetime, timezone
from unittest.mock import MagicMock
from frequenz.client.microgrid import Component, ComponentCategory, Connection, InverterType, ComponentMetricId
from frequenz.quantities import Power
from frequenz.channels import Broadcast
from frequenz.sdk.microgrid.component_graph import _MicrogridComponentGraph
from frequenz.sdk.microgrid import connection_manager
from frequenz.sdk._internal._channels import ChannelRegistry
from frequenz.sdk.timeseries import Sample
from frequenz.sdk.timeseries.formula_engine._formula_generators import (
  GridPowerFormula, ConsumerPowerFormula, ProducerPowerFormula, BatteryPowerFormula, EVChargerPowerFormula, PVPowerFormula, CHPPowerFormula, FormulaGeneratorConfig)
from frequenz.sdk.timeseries.formula_engine._formula_steps import MetricFetcher
C=ComponentCategory
TS=datetime(2024,1,1,tzinfo=timezone.utc)
def gen(rng):
    comps=[Component(1,C.GRID)]; conns=[]; nid=[1]
    info={}  # id -> kind
    children={1:[]}
    def new(cat,typ=None):
        nid[0]+=1; c=Component(nid[0],cat,typ); comps.append(c); children[nid[0]]=[]; return nid[0]
    def link(a,b): conns.append(Connection(a,b)); children[a].append(b)
    def add_device(parent,kind):
        if kind=='bat':
            i=new(C.INVERTER,InverterType.BATTERY); link(parent,i); info[i]='batinv'
            for _ in range(rng.randint(1,2)):
                b=new(C.BATTERY); link(i,b); info[b]='bat'
        elif kind=='pv':
            i=new(C.INVERTER,InverterType.SOLAR); link(parent,i); info[i]='pvinv'
        elif kind=='ev':
            e=new(C.EV_CHARGER); link(parent,e); info[e]='ev'
        elif kind=='chp':
            m=new(C.METER); link(parent,m); info[m]='meter'
            for _ in range(rng.randint(1,2)):
                c=new(C.CHP); link(m,c); info[c]='chp'
    def add_meter(parent,depth):
        m=new(C.METER); link(parent,m); info[m]='meter'
        style=rng.choice(['ded','mixed','load','nest'])
        if style=='ded':
            k=rng.choice(['bat','pv','ev'])
            for _ in range(rng.randint(1,3)): add_device(m,k)
        elif style=='load':
            pass
        else:
            for _ in range(rng.randint(1,4)):
                r=rng.random()
                if r<0.35 and depth<3: add_meter(m,depth+1)
                else: add_device(m,rng.choice(['bat','pv','ev','chp']))
        return m
    if rng.random()<0.6:
        gm=new(C.METER); link(1,gm); info[gm]='meter'
        for _ in range(rng.randint(1,5)):
            if rng.random()<0.6: add_meter(gm,1)
            else: add_device(gm,rng.choice(['bat','pv','ev','chp']))
    else:
        for _ in range(rng.randint(1,4)):
            r=rng.random()
            if r<0.6: add_meter(1,1)
            else: add_device(1,rng.choice(['bat','pv','ev','chp']))
    return comps,conns,info,children
class FakeCM:
    def __init__(s,g): s.component_graph=g; s.api_client=None
def evaluate(engine,values):
    b=engine._builder
    st=[]
    for step in b._steps:
        if isinstance(step,MetricFetcher):
            cid=int(repr(step)[1:])
            v=values.get(cid)
            step._next_value=Sample(TS,None if v is None else Power.from_watts(v))
        step.apply(st)
    assert len(st)==1
    return st[0]
rng=random.Random(int(sys.argv[1])); N=int(sys.argv[2])
stats={}; 
for it in range(N):
    comps,conns,info,children=gen(rng)
    try: g=_MicrogridComponentGraph(set(comps),set(conns))
    except Exception as e: stats.setdefault('invalid',[0,str(e)])[0]+=1; continue
    connection_manager._CONNECTION_MANAGER=FakeCM(g)
    # assignment
    own={}; 
    g2=g
    for cid,k in info.items():
        if k=='batinv': own[cid]=rng.choice([-1,1])*rng.randint(1,1000)
        elif k=='pvinv': own[cid]=-rng.randint(1,1000)
        elif k=='ev': own[cid]=rng.randint(1,1000)
        elif k=='chp': own[cid]=-rng.randint(1,1000)
    # classify meters for load
    comp_by_id={c.component_id:c for c in comps}
    load={}
    for cid,k in info.items():
        if k=='meter':
            c=comp_by_id[cid]
            kinds={info[ch] for ch in children[cid]}; ded=len(kinds)==1 and kinds<= {'batinv','pvinv','ev','chp'}
            load[cid]=0 if ded else rng.choice([0,rng.randint(1,1000)])
    def measured(cid):
        k=info.get(cid)
        if k=='meter': return load[cid]+sum(measured(ch) for ch in children[cid])
        if k in('batinv','pvinv','ev','chp'): return own[cid]
        return 0
    values={cid:measured(cid) for cid,k in info.items() if k in('meter','batinv','pvinv','ev')}
    truth={'battery':sum(v for c,v in own.items() if info[c]=='batinv'),'pv':sum(v for c,v in own.items() if info[c]=='pvinv'),
      'ev':sum(v for c,v in own.items() if info[c]=='ev'),'chp':sum(v for c,v in own.items() if info[c]=='chp'),'consumer':sum(load.values())}
    truth['producer']=truth['pv']+truth['chp']; truth['grid']=truth['consumer']+truth['producer']+truth['battery']+truth['ev']
    reg=ChannelRegistry(name='x'); snd=MagicMock()
    bat_ids={c for c,k in info.items() if k=='bat'}; ev_ids={c for c,k in info.items() if k=='ev'}
    gens={'grid':(GridPowerFormula,None),'consumer':(ConsumerPowerFormula,None),'producer':(ProducerPowerFormula,None),
          'battery':(BatteryPowerFormula,bat_ids),'ev':(EVChargerPowerFormula,ev_ids),'pv':(PVPowerFormula,None),'chp':(CHPPowerFormula,None)}
    for fb in (True,False):
      for name,(cls,ids) in gens.items():
        try:
            eng=cls('ns',reg,snd,FormulaGeneratorConfig(component_ids=ids,allow_fallback=fb)).generate()
            got=evaluate(eng,values)
        except Exception as e:
            stats.setdefault(f'exc-{name}-{type(e).__name__}',[0,(str(e)[:100],sorted((c.component_id,c.category.name,str(c.type)) for c in comps),sorted((x.start,x.end) for x in conns))])[0]+=1; continue
        if not math.isclose(got,truth[name],abs_tol=1e-6):
            stats.setdefault(f'bad-{name}-fb{fb}',[0,(str(eng),got,truth[name],sorted((c.component_id,c.category.name,str(c.type).split('.')[-1]) for c in comps),sorted((x.start,x.end) for x in conns),values,load)])[0]+=1
        else: stats.setdefault('ok',[0,None])[0]+=1
for k,(n,ex) in sorted(stats.items()): print(k,n,'\n    ',str(ex)[:1500])
