import asyncio, async_solipsism, logging
from datetime import timedelta
from frequenz.sdk.actor import Actor, run
logging.disable(logging.CRITICAL)
class MyBase(BaseException): pass
class Probe(Actor):
    def __init__(s, script): super().__init__(name='p'); s.script=list(script); s.events=[]; s.active=0; s.n=0
    async def _run(s):
        i=s.n; s.n+=1; s.active+=1; t=asyncio.get_event_loop().time()
        s.events.append(('enter',i,t,s.active))
        kind=s.script[i] if i<len(s.script) else 'block'
        try:
            if kind=='ret': await asyncio.sleep(1); return
            if kind=='exc': await asyncio.sleep(1); raise ValueError('x')
            if kind=='base': await asyncio.sleep(1); raise MyBase()
            if kind=='block': await asyncio.sleep(1e6)
            if kind=='cancel2exc':
                try: await asyncio.sleep(1e6)
                except asyncio.CancelledError: raise ValueError('during cancel')
            if kind=='swallow':
                try: await asyncio.sleep(1e6)
                except asyncio.CancelledError: return
        finally:
            s.active-=1; s.events.append(('exit',i,asyncio.get_event_loop().time()))
async def scen(name, script, limit, actions):
    Actor._restart_limit=limit
    a=Probe(script); out=[]
    loop=asyncio.get_event_loop(); t0=loop.time()
    for (at,act) in actions:
        await asyncio.sleep(max(0,t0+at-loop.time()))
        try:
            if act=='start': a.start()
            elif act=='stop':
                r=await asyncio.wait_for(a.stop(),1000); out.append(('stop-returned',loop.time()-t0,a.is_running))
            elif act=='cancel': a.cancel()
            elif act=='wait':
                await asyncio.wait_for(a.wait(),1000); out.append(('wait-returned',loop.time()-t0))
            elif act=='addtask':
                a._tasks.add(asyncio.create_task(asyncio.sleep(5)))
        except BaseException as e: out.append((act,'raised',type(e).__name__,repr(e)[:120],loop.time()-t0))
    ev=[(e[0],e[1],round(e[2]-t0,3)) for e in a.events]
    print(name,'\n   events',ev,'\n   out',out,'running',a.is_running)
    a.cancel()
async def main():
    await scen('exc-then-ret',['exc','ret'],None,[(0,'start'),(10,'wait')])
    await scen('limit0',['exc','ret'],0,[(0,'start'),(10,'wait')])
    await scen('limit1',['exc','exc','exc'],1,[(0,'start'),(10,'wait')])
    await scen('stop-during-delay',['exc','ret'],None,[(0,'start'),(2,'stop'),(10,'wait')])
    await scen('base',['base','ret'],None,[(0,'start'),(10,'wait')])
    await scen('cancel2exc',['cancel2exc','ret'],None,[(0,'start'),(2,'stop')])
    await scen('swallow',['swallow','ret'],None,[(0,'start'),(2,'stop')])
    await scen('double-start',['block'],None,[(0,'start'),(1,'start'),(2,'stop')])
    await scen('restart-after-done',['ret','ret'],None,[(0,'start'),(5,'start'),(10,'wait')])
    await scen('stop-before-start',['ret'],None,[(0,'stop'),(1,'start'),(5,'wait')])
    await scen('addtask-then-stop',['block'],None,[(0,'start'),(1,'addtask'),(2,'stop')])
asyncio.set_event_loop_policy(async_solipsism.EventLoopPolicy())
asyncio.run(main())
