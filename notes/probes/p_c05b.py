import asyncio, random, sys, logging, math
from fractions import Fraction as F
from datetime import datetime, timezone, timedelta
from frequenz.channels import Broadcast
from frequenz.quantities import Quantity
from frequenz.sdk.timeseries import Sample
from frequenz.sdk.timeseries.formula_engine._formula_engine import FormulaBuilder, FormulaEngine
from frequenz.sdk.timeseries.formula_engine._tokenizer import Tokenizer, TokenType
logging.disable(logging.CRITICAL)
T0=datetime(2024,1,1,tzinfo=timezone.utc)
# AST: ('leaf',i) ('const',v) ('bin',op,l,r) ('un',op,x)
def gen(rng,depth,nleaf,api):
    if depth==0 or rng.random()<0.25: return ('leaf',rng.randrange(nleaf))
    r=rng.random()
    if api and r<0.12: return ('un',rng.choice(['consumption','production']),gen(rng,depth-1,nleaf,api))
    if api and r<0.3:
        op=rng.choice(['min','max']); l=gen(rng,depth-1,nleaf,api)
        rr=('const',float(rng.randint(-5,5))) if rng.random()<0.3 else gen(rng,depth-1,nleaf,api)
        return ('bin',op,l,rr)
    op=rng.choice(['+','-','*','/'])
    l=gen(rng,depth-1,nleaf,api)
    if api and rng.random()<0.15: rr=('const',float(rng.choice([-3,-2,-0.5,0.5,2,3,4])))
    else: rr=gen(rng,depth-1,nleaf,api)
    return ('bin',op,l,rr)
class DivZero(Exception): pass
def ev(a,vals,absmode=False):
    k=a[0]
    if k=='leaf': v=F(vals[a[1]]); return abs(v) if absmode else v
    if k=='const': v=F(a[1]); return abs(v) if absmode else v
    if k=='un':
        x=ev(a[2],vals,absmode)
        if absmode: return x
        return max(x,0) if a[1]=='consumption' else max(-x,0)
    op,l,r=a[1],ev(a[2],vals,absmode),ev(a[3],vals,absmode)
    if op=='+': return l+r
    if op=='-': return l+r if absmode else l-r
    if op=='*': return l*r
    if op=='/':
        if r==0: raise DivZero()
        return l/r
    if op=='min': return max(l,r) if absmode else min(l,r)
    if op=='max': return max(l,r)
PREC={'+':1,'-':1,'*':2,'/':2}
def to_str(a,rng,parent=None,right=False):
    if a[0]=='leaf': s=f"#{a[1]+1}"
    else:
        op=a[1]; s=f"{to_str(a[2],rng,op,False)}{rng.choice(['',' ','  '])}{op}{rng.choice(['',' '])}{to_str(a[3],rng,op,True)}"
        need = parent is not None and (PREC[op]<PREC[parent] or (right and PREC[op]==PREC[parent]))
        if need or rng.random()<0.2: s=f"({s})"
    if rng.random()<0.1: s=f"( {s} )"
    return s
def build_api(a,engines):
    k=a[0]
    if k=='leaf': return engines[a[1]]
    if k=='const': return a
    if k=='un':
        x=build_api(a[2],engines); return getattr(x,a[1])()
    op=a[1]; l=build_api(a[2],engines); r=build_api(a[3],engines)
    if isinstance(r,tuple): r=Quantity(r[1]) if op in('+','-','min','max') else r[1]
    if op=='+': return l+r
    if op=='-': return l-r
    if op=='*': return l*r
    if op=='/': return l/r
    return getattr(l,op)(r)
def has_const_left(a):
    # API cannot have const on the left or unary of leaf-less; ensure left operands are never const
    return False
EPS=F(1,2**48)
class Ill(Exception): pass
def flat(a,ops):
    # flatten maximal chain over ops into [(sign/inv, node)]
    if a[0]=='bin' and a[1] in ops:
        l=flat(a[2],ops); r=flat(a[3],ops)
        inv = a[1] in ('-','/')
        return l+[(not f if inv else f, n) for f,n in r]
    return [(False,a)]
def evb(a,vals):
    """exact value and sound bound on |float_result - exact| for any association order"""
    k=a[0]
    if k=='leaf': return F(vals[a[1]]),F(0)
    if k=='const': return F(a[1]),F(0)
    if k=='un':
        v,e=evb(a[2],vals); return (max(v,0) if a[1]=='consumption' else max(-v,0)),e
    op=a[1]
    if op in('min','max'):
        (l,el),(r,er)=evb(a[2],vals),evb(a[3],vals); return (min(l,r) if op=='min' else max(l,r)),max(el,er)
    if op in('+','-'):
        terms=[(neg,evb(n,vals)) for neg,n in flat(a,('+','-'))]
        v=sum((-t[0] if neg else t[0]) for neg,t in terms)
        mag=sum(abs(t[0])+t[1] for _,t in terms); e=sum(t[1] for _,t in terms)+len(terms)*EPS*mag
        return v,e
    fac=[(inv,evb(n,vals)) for inv,n in flat(a,('*','/'))]
    v=F(1); rel=F(0)
    for inv,(x,e) in fac:
        if inv and x==0: raise DivZero()
        if e>=abs(x) and (inv or e>0):
            if x==0 and not inv and e==0: pass
            else: raise Ill()
        if inv: v/=x
        else: v*=x
        if x!=0: rel+= e/(abs(x)-e) if e>0 else 0
    rel+=len(fac)*EPS
    return v, abs(v)*rel*2
stats={}
def note(k,ex): stats.setdefault(k,[0,ex])[0]+=1
async def one(seed,api):
    rng=random.Random(seed)
    nleaf=rng.randint(1,4)
    a=gen(rng,rng.randint(1,5),nleaf,api)
    if a[0]=='leaf' and api: a=('bin','+',a,('leaf',0))
    chans=[Broadcast[Sample[Quantity]](name=f'c{i}') for i in range(nleaf)]
    if api:
        engines=[FormulaEngine.from_receiver(f'e{i}',chans[i].new_receiver(limit=100),Quantity) for i in range(nleaf)]
        eng=build_api(a,engines).build(f'f{seed}')
        desc=str(a)
    else:
        s=to_str(a,rng); desc=s
        b=FormulaBuilder('t',Quantity)
        for tok in Tokenizer(s):
            if tok.type==TokenType.COMPONENT_METRIC: b.push_metric(f"#{tok.value}",chans[int(tok.value)-1].new_receiver(limit=100),nones_are_zeros=False)
            else: b.push_oper(tok.value)
        eng=b.build()
    rx=eng.new_receiver(max_size=100)
    senders=[c.new_sender() for c in chans]
    await asyncio.sleep(0)
    pool=[0,1,-1,2,-2,0.5,-0.5,3,7,-7,10,100,-100,1e6,-1e6,0.25,1/3,-2/3,1e-3]
    vecs=[[rng.choice(pool) for _ in range(nleaf)] for _ in range(6)]
    for k,v in enumerate(vecs):
        for i in range(nleaf): await senders[i].send(Sample(T0+timedelta(seconds=k),Quantity(float(v[i]))))
    for _ in range(60+20*nleaf): await asyncio.sleep(0)
    outs=[]
    while rx._q: s_=rx._q.popleft(); outs.append(s_)
    await eng._stop()
    byts={(o.timestamp-T0).seconds:o for o in outs}
    for k,v in enumerate(vecs):
        try: exp=ev(a,v)
        except DivZero: note('divzero-skip',None); continue
        try: exp2,bound=evb(a,v)
        except Ill: note('ill-conditioned-skip',None); continue
        except DivZero: note('divzero-skip2',None); continue
        assert exp2==exp,(exp2,exp)
        scale=bound
        o=byts.get(k)
        if o is None: note('missing-output',(seed,api,desc,v)); continue
        if o.value is None: note('none-output',(seed,api,desc,v,float(exp))); continue
        got=F(o.value.base_value)
        try: sc=float(scale)
        except Exception: sc=float('inf')
        if abs(got-exp) > 4*bound+F(1,10**300): note('MISMATCH',(seed,api,desc,v,float(got),float(exp),sc))
        else:
            note('ok',None)
            if bound>abs(exp)*F(1,10**6)+F(1,10**9): note('ok-but-weak-bound',None)
async def main():
    for s in range(int(sys.argv[1]),int(sys.argv[2])):
        for api in (False,True):
            try: await asyncio.wait_for(one(s,api),10)
            except ZeroDivisionError: note('absmode-div0',None)
            except Exception as e:
                import traceback; note('harness-exc '+type(e).__name__+':'+str(e)[:80],(s,api,traceback.format_exc()[-400:]))
    for k,(n,ex) in sorted(stats.items()): print(k,n,'\n   ',str(ex)[:700])
asyncio.run(main())
