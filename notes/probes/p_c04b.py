import random, sys
from datetime import datetime, timezone, timedelta
from frequenz.quantities import Power
from frequenz.sdk.timeseries._base_types import Bounds, SystemBounds
from frequenz.sdk.microgrid._power_managing._matryoshka import Matryoshka
from frequenz.sdk.microgrid._power_managing._base_classes import Proposal
W=Power.from_watts; TS=datetime(2024,1,1,tzinfo=timezone.utc); CID=frozenset({1,2})
def mk(src,prio,pref,lo,hi):
    return Proposal(source_id=src,preferred_power=None if pref is None else W(pref),bounds=Bounds(None if lo is None else W(lo),None if hi is None else W(hi)),component_ids=CID,priority=prio,creation_time=0.0,set_operating_point=False)
rng=random.Random(int(sys.argv[1])); N=int(sys.argv[2]); st={}
def note(k,ex): st.setdefault(k,[0,ex])[0]+=1
vals=[-1000,-500,-100,-51,-50,-49,-10,0,10,49,50,51,100,500,1000]
for it in range(N):
    sl=rng.choice([-1000,-500,-60,0]); su=rng.choice([0,60,500,1000])
    el,eu=rng.choice([(0,0),(0,0),(-50,50),(-10,100),(-100,0)])
    sb=SystemBounds(timestamp=TS,inclusion_bounds=Bounds(W(sl),W(su)),exclusion_bounds=Bounds(W(el),W(eu)))
    n=rng.randint(1,4); props=[]
    for i in range(n):
        blo=rng.choice([None,None,None]+[v for v in vals if v<=0]); bhi=rng.choice([None,None,None]+[v for v in vals if v>=0])
        props.append((f"a{i}",i,rng.choice([None]+vals),blo,bhi))   # distinct priorities
    m=Matryoshka(max_proposal_age=timedelta(seconds=60))
    for p in props: m.calculate_target_power(CID,mk(*p),sb,True)
    # reference running interval after all proposals with priority > q ; None if conflict
    def ref_interval(q):
        lo,hi=sl,su
        zone=(el!=0 or eu!=0)
        def carve(lo,hi):
            if zone and el<lo<eu: lo=eu
            if zone and el<hi<eu: hi=el
            return lo,hi
        lo,hi=carve(lo,hi)
        if lo>hi: return None
        for (s_,p_,pf,bl,bh) in sorted(props,key=lambda p:p[1],reverse=True):
            if p_<=q: break
            nlo=lo if bl is None else max(lo,bl); nhi=hi if bh is None else min(hi,bh)
            nlo,nhi=carve(nlo,nhi)
            if nlo>nhi: return None
            lo,hi=nlo,nhi
        return lo,hi
    if ref_interval(-1) is None: note('conflict-skip',None); continue
    for (src,prio,pref,blo,bhi) in props:
        rep=m.get_status(CID,prio,sb)
        B=rep.bounds
        lo,hi=B.lower.as_watts(),B.upper.as_watts()
        ri=ref_interval(prio)
        if (lo,hi)!=ri: note('reported-bounds-vs-reference',(sl,su,el,eu,props,prio,(lo,hi),ri))
        if lo>hi: note('reported-empty',None); continue
        # build variant: same higher-priority proposals, this actor proposes x, lower ones have no preference/bounds
        probes={lo,hi,lo-1,hi+1,lo+1,hi-1,0,el,eu,el-1,eu+1,el+1,eu-1}
        for x in probes:
            m2=Matryoshka(max_proposal_age=timedelta(seconds=60))
            for q in props:
                if q[1]>prio: m2.calculate_target_power(CID,mk(*q),sb,True)
            t=m2.calculate_target_power(CID,mk(src,prio,x,blo,bhi),sb,True).as_watts()
            if abs(x)<1e-9 and (el!=0 or eu!=0) and el<x<eu: note('zero-in-zone-dontcare',None); continue
            zone = (el!=0 or eu!=0) and el<x<eu and abs(x)>1e-9
            inside = lo<=x<=hi and not zone
            adj=rep.adjust_to_bounds(W(x))
            adj_same = adj[0] is not None and adj[1] is not None and adj[0].as_watts()==x and adj[1].as_watts()==x
            if inside and abs(t-x)>1e-9: note('inside-reported-but-not-adopted',(sl,su,el,eu,props,prio,(lo,hi),x,t))
            if (not inside) and abs(t-x)<1e-9: note('outside-reported-but-adopted',(sl,su,el,eu,props,prio,(lo,hi),x,t))
            if inside!=adj_same: note('adjust_to_bounds-disagrees',(sl,su,el,eu,props,prio,(lo,hi),x,adj))
            note('checked',None)
for k,(n,ex) in sorted(st.items()): print(k,n,'\n   ',ex)
