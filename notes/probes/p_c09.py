import random, math, sys
from datetime import datetime, timedelta, timezone
import numpy as np
from frequenz.quantities import Quantity
from frequenz.sdk.timeseries import Sample
from frequenz.sdk.timeseries._ringbuffer import OrderedRingBuffer
E=datetime(2024,1,1,tzinfo=timezone.utc)
def ts(x,period): return E+timedelta(seconds=x*period)
stats={}
def note(k,ex):
    stats.setdefault(k,[0,ex]); stats[k][0]+=1
def run(seed):
    rng=random.Random(seed)
    cap=rng.randint(1,6); period=rng.choice([1,2,0.5,60])
    uselist=rng.random()<0.5
    buf=OrderedRingBuffer([0.0]*cap if uselist else np.empty(cap), timedelta(seconds=period), E)
    model={}  # slot->value or None(written missing)
    newest=None
    hist=[]
    cur=rng.randint(0,20)
    for step in range(rng.randint(1,25)):
        r=rng.random()
        if r<0.55: cur=(newest if newest is not None else cur)+1
        elif r<0.75: cur=(newest if newest is not None else cur)-rng.randint(0,cap+1)
        elif r<0.9: cur=(newest if newest is not None else cur)+rng.randint(2,2*cap+2)
        else: cur=(newest if newest is not None else cur)+rng.randint(-cap,cap)
        off=rng.choice([0,0,0,0.3,-0.3,0.5,-0.5,0.49])
        val=rng.choice([None,float('nan')]) if rng.random()<0.2 else float(step+1)
        t=cur+off
        slot=math.floor(t) if (t-math.floor(t))<0.5 else math.ceil(t)
        if abs(t-math.floor(t)-0.5)<1e-9:
            f=math.floor(t); slot=f if f%2==0 else f+1
        hist.append((t,val))
        smp=Sample(ts(t,period), None if val is None else Quantity(val))
        rejected=False
        try: buf.update(smp)
        except IndexError: rejected=True
        exp_rej = newest is not None and slot < newest-cap+1
        if rejected!=exp_rej: note('reject-mismatch',(seed,hist[:],cap,period)); return
        if rejected: continue
        newest=slot if newest is None else max(newest,slot)
        model[slot]=None if (val is None or val!=val) else val
        for k in list(model):
            if k<newest-cap+1: del model[k]
        # checks
        valid={k:v for k,v in model.items() if v is not None}
        try:
            cv=buf.count_valid()
        except Exception as e: note('count_valid-exc:'+type(e).__name__,(seed,hist[:],cap,period)); return
        if cv!=len(valid): note('count_valid',(seed,hist[:],cap,period,cv,len(valid))); return
        # gaps vs model
        missing=set(range(newest-cap+1,newest+1))-set(valid)
        gapset=set()
        for g in buf.gaps:
            a=round((g.start-E).total_seconds()/period); b=round((g.end-E).total_seconds()/period)
            gapset|=set(range(a,b))
        if gapset!=missing: note('gaps',(seed,hist[:],cap,period,sorted(gapset),sorted(missing))); return
        o=buf.oldest_timestamp
        eo=min(valid) if valid else None
        if (o is None)!=(eo is None) or (o is not None and o!=ts(eo,period)): note('oldest',(seed,hist[:],cap,period)); return
        # window queries by datetime aligned
        if valid:
            lo=newest-cap-1; hi=newest+3
            for _ in range(6):
                a=rng.randint(lo,hi); b=rng.randint(lo,hi)
                oa=rng.choice([0,0,0.3,-0.3,0.5]); ob=rng.choice([0,0,0.3,-0.3,0.5])
                try: w=list(buf.window(ts(a+oa,period),ts(b+ob,period)))
                except Exception as e: note('window-exc:'+type(e).__name__,(seed,hist[:],cap,period,a+oa,b+ob)); continue
                span=(b+ob)-(a+oa)
                if len(w)>max(0,math.ceil(span))+ (1 if (oa or ob) else 0): note('window-too-long'+('-unaligned' if (oa or ob) else ''),(seed,hist[:],cap,period,a+oa,b+ob,w)); continue
                if oa==0 and ob==0:
                    s=max(a,min(valid)); e=min(b,newest+1)
                    exp=[valid.get(k,float('nan')) for k in range(s,e)] if s<e else []
                    if len(exp)!=len(w) or any(not((x!=x and y!=y) or x==y) for x,y in zip(exp,w)):
                        note('window-aligned',(seed,hist[:],cap,period,a,b,w,exp))
                else:
                    # any rounding of endpoints acceptable
                    ok=False
                    for sa in {math.floor(a+oa),math.ceil(a+oa)}:
                        for sb in {math.floor(b+ob),math.ceil(b+ob)}:
                            s=max(sa,min(valid)); e=min(sb,newest+1)
                            exp=[valid.get(k,float('nan')) for k in range(s,e)] if s<e else []
                            if len(exp)==len(w) and all(((x!=x and y!=y) or x==y) for x,y in zip(exp,w)): ok=True
                    if not ok: note('window-unaligned',(seed,hist[:],cap,period,a+oa,b+ob,w,sorted(valid.items())))
            # index queries
            cc=buf.count_covered()
            ecc=newest-min(valid)+1
            if cc!=ecc: note('count_covered',(seed,hist[:],cap,period,cc,ecc))
            for _ in range(4):
                i=rng.choice([None]+list(range(-cap-2,cap+3))); j=rng.choice([None]+list(range(-cap-2,cap+3)))
                try: w=list(buf.window(i,j))
                except Exception as e: note('iwindow-exc:'+type(e).__name__,(seed,hist[:],cap,period,i,j)); continue
                full=[valid.get(k,float('nan')) for k in range(min(valid),newest+1)]
                exp=full[i:j]
                if len(exp)!=len(w) or any(not((x!=x and y!=y) or x==y) for x,y in zip(exp,w)):
                    note('window-index',(seed,hist[:],cap,period,i,j,w,exp))
for s in range(int(sys.argv[1]),int(sys.argv[2])): 
    try: run(s)
    except Exception as e:
        import traceback; note('harness-exc:'+type(e).__name__+str(e)[:40],(s,traceback.format_exc()[-600:]))
for k,(n,ex) in sorted(stats.items()): print(k,n,'\n   e.g.',ex)
