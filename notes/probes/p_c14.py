import asyncio, random, sys, logging
sys.path.insert(0,'/tmp/probe')
from vloop import run_virtual
from datetime import timedelta
from frequenz.channels import Broadcast
from frequenz.client.microgrid import ComponentCategory
from frequenz.quantities import Power
from frequenz.sdk.microgrid._power_distributing import power_distributing as pd
from frequenz.sdk.microgrid._power_distributing import Request
logging.disable(logging.CRITICAL)
stats={}
def note(k,ex): stats.setdefault(k,[0,ex])[0]+=1
def one(seed):
    rng=random.Random(seed)
    log=[]
    class Probe:
        def __init__(s,*a,**k): pass
        def component_ids(s): return set()
        async def start(s): pass
        async def stop(s): pass
        async def distribute_power(s,request):
            g=tuple(sorted(request.component_ids)); rid=request.power.as_watts()
            t=asyncio.get_event_loop().time(); log.append(('enter',g,rid,t))
            d,fail=script[rid]
            try:
                if d>0: await asyncio.sleep(d)
                if fail: raise RuntimeError('boom')
            finally:
                log.append(('exit',g,rid,asyncio.get_event_loop().time()))
    pd.BatteryManager=Probe
    groups=[frozenset({1,2}),frozenset({3}),frozenset({4,5})][:rng.randint(1,3)]
    nreq=rng.randint(2,25)
    script={}; plan=[]
    t=0.0
    for i in range(nreq):
        t+=rng.choice([0,0,0.5,1.0,1.0,2.0,3.5])
        g=rng.choice(groups); rid=float(i+1)
        script[rid]=(rng.choice([0,0,1.0,1.0,2.0,5.0]),rng.random()<0.25)
        plan.append((t,g,rid))
    loopexc=[]
    async def main():
        asyncio.get_event_loop().set_exception_handler(lambda l,c: loopexc.append(c))
        reqc=Broadcast[Request](name='r'); resc=Broadcast(name='res'); stc=Broadcast(name='st')
        a=pd.PowerDistributingActor(reqc.new_receiver(limit=1000),resc.new_sender(),stc.new_sender(),api_power_request_timeout=timedelta(seconds=5),component_category=ComponentCategory.BATTERY)
        a.start(); tx=reqc.new_sender()
        await asyncio.sleep(0)
        t0=asyncio.get_event_loop().time()
        for (at,g,rid) in plan:
            dt=t0+at-asyncio.get_event_loop().time()
            if dt>0: await asyncio.sleep(dt)
            log.append(('sent',tuple(sorted(g)),rid,asyncio.get_event_loop().time()))
            await tx.send(Request(power=Power.from_watts(rid),component_ids=set(g)))
        await asyncio.sleep(200)
        await a.stop()
    run_virtual(main)
    # oracle per group
    for g in {e[1] for e in log}:
        ev=[e for e in log if e[1]==g]
        inflight=None; pending=None; entered=[]; last_sent=None
        for i,(k,_,rid,t) in enumerate(ev):
            if k=='sent':
                last_sent=rid
                if inflight is None:
                    # must be entered at same time
                    nxt=[e for e in ev[i+1:] if e[0]=='enter']
                    if not nxt or nxt[0][2]!=rid or nxt[0][3]!=t: note('idle-not-started-immediately',(seed,g,rid,ev)); 
                    inflight='expect:'+str(rid)
                else: pending=rid
            elif k=='enter':
                if inflight is not None and not str(inflight).startswith('expect:'): note('OVERLAP',(seed,g,ev))
                if isinstance(inflight,str) and inflight!='expect:'+str(rid): note('wrong-enter',(seed,g,rid,inflight,ev))
                inflight=rid; entered.append(rid)
            elif k=='exit':
                if pending is not None:
                    nxt=[e for e in ev[i+1:] if e[0] in('enter',)]
                    if not nxt or nxt[0][2]!=pending or nxt[0][3]!=t: note('pending-not-latest-or-late',(seed,g,pending,ev))
                    inflight='expect:'+str(pending); pending=None
                else: inflight=None
        if entered and entered[-1]!=last_sent: note('last-not-applied',(seed,g,entered,last_sent))
        if entered!=sorted(entered): note('out-of-order',(seed,g,entered))
    if loopexc: note('loop-exceptions',(seed,str(loopexc[0])[:200]))
    note('runs',None)
for s in range(int(sys.argv[1]),int(sys.argv[2])):
    try: one(s)
    except Exception as e:
        import traceback; note('harness-exc '+type(e).__name__+str(e)[:60],(s,traceback.format_exc()[-600:]))
for k,(n,ex) in sorted(stats.items()): print(k,n,'\n   ',str(ex)[:800])
