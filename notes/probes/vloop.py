import asyncio, async_solipsism, time_machine
from datetime import datetime, timezone, timedelta
EPOCH=datetime(2024,1,1,0,0,0,tzinfo=timezone.utc)
def run_virtual(coro_fn, start_offset=0.0):
    """Run coro_fn() in a virtual-time loop with wall clock locked to loop.time()."""
    with time_machine.travel(EPOCH+timedelta(seconds=start_offset), tick=False) as tr:
        loop=async_solipsism.EventLoop()
        clock=loop._selector.clock
        orig=clock.advance
        def adv(delta):
            orig(delta); tr.move_to(EPOCH+timedelta(seconds=start_offset)+timedelta(microseconds=round(clock.time()*1e6)))
        clock.advance=adv
        asyncio.set_event_loop(loop)
        try: return loop.run_until_complete(coro_fn())
        finally:
            try:
                for t in asyncio.all_tasks(loop): t.cancel()
                loop.run_until_complete(asyncio.sleep(0))
            except Exception: pass
            loop.close()
