import random, math, sys
from datetime import datetime, timezone
sys.path.insert(0,'/repo')
from tests.utils.component_data_wrapper import BatteryDataWrapper, InverterDataWrapper
from frequenz.sdk.microgrid._power_distributing._distribution_algorithm import (
    AggregatedBatteryData, BatteryDistributionAlgorithm, InvBatPair)
ts=datetime.now(timezone.utc)
def gen(rng):
    ngroups=rng.randint(1,4)
    pairs=[]; cid=1
    for g in range(ngroups):
        nb=rng.randint(1,2); ni=rng.randint(1,3)
        bats=[]
        for _ in range(nb):
            lo=rng.choice([0,10,20]); hi=rng.choice([80,90,100])
            soc=rng.choice([lo,hi,rng.uniform(lo,hi),rng.uniform(0,100)])
            eu=rng.choice([0,0,50,100,300]); el=-rng.choice([0,0,50,100,300])
            iu=eu+rng.choice([0,100,1000,5000]); il=el-rng.choice([0,100,1000,5000])
            bats.append(BatteryDataWrapper(component_id=cid,timestamp=ts,capacity=rng.choice([1000,5000,98000]),soc=soc,soc_lower_bound=lo,soc_upper_bound=hi,
               power_inclusion_lower_bound=il,power_exclusion_lower_bound=el,power_exclusion_upper_bound=eu,power_inclusion_upper_bound=iu)); cid+=1
        invs=[]
        for _ in range(ni):
            eu=rng.choice([0,0,50,100,300]); el=-rng.choice([0,0,50,100,300])
            iu=eu+rng.choice([0,100,1000,5000]); il=el-rng.choice([0,100,1000,5000])
            invs.append(InverterDataWrapper(component_id=cid,timestamp=ts,active_power_inclusion_lower_bound=il,active_power_exclusion_lower_bound=el,active_power_exclusion_upper_bound=eu,active_power_inclusion_upper_bound=iu)); cid+=1
        pairs.append(InvBatPair(AggregatedBatteryData(bats),invs))
    return pairs
def consistent(pairs):
    for b,inv in pairs:
        pb=b.power_bounds
        # consume
        minp=max(pb.exclusion_upper,min(i.active_power_exclusion_upper_bound for i in inv))
        incl=min(sum(min(i.active_power_inclusion_upper_bound,pb.inclusion_upper) for i in inv),pb.inclusion_upper)
        if minp>incl: return False
        minp=max(-pb.exclusion_lower,min(-i.active_power_exclusion_lower_bound for i in inv))
        incl=min(sum(-max(i.active_power_inclusion_lower_bound,pb.inclusion_lower) for i in inv),-pb.inclusion_lower)
        if minp>incl: return False
        if not(pb.inclusion_lower<=pb.exclusion_lower<=0<=pb.exclusion_upper<=pb.inclusion_upper): return False
    return True
def adv_bounds(pairs):
    # BatteryManager._get_bounds
    il=sum(max(b.power_bounds.inclusion_lower,sum(i.active_power_inclusion_lower_bound for i in inv)) for b,inv in pairs)
    iu=sum(min(b.power_bounds.inclusion_upper,sum(i.active_power_inclusion_upper_bound for i in inv)) for b,inv in pairs)
    el=sum(min(b.power_bounds.exclusion_lower,sum(i.active_power_exclusion_lower_bound for i in inv)) for b,inv in pairs)
    eu=sum(max(b.power_bounds.exclusion_upper,sum(i.active_power_exclusion_upper_bound for i in inv)) for b,inv in pairs)
    return il,el,eu,iu
rng=random.Random(int(sys.argv[1]) if len(sys.argv)>1 else 0)
feat_tab={}
n=0; bad_sum=0; bad_sign=0; bad_rem=0; bad_bounds=0; exc=0
ex={}
for it in range(20000):
    pairs=gen(rng)
    il,el,eu,iu=adv_bounds(pairs)
    if not consistent(pairs): continue
    exp=rng.choice([0,0.5,1,1,2,3])
    alg=BatteryDistributionAlgorithm(exp)
    if rng.random()<0.5:
        if iu<=0: continue
        p=rng.choice([eu if eu>0 else 1.0, iu, rng.uniform(max(eu,1e-3),max(iu,eu+1)), iu*1.5])
        if p<eu or p<=0: continue
    else:
        if il>=0: continue
        p=rng.choice([el if el<0 else -1.0, il, rng.uniform(min(il,el-1),min(el,-1e-3)), il*1.5])
        if p>el or p>=0: continue
    try:
        r=alg.distribute_power(p,pairs)
    except Exception as e:
        exc+=1; ex.setdefault(type(e).__name__+str(e)[:50],(p,[(b,inv) for b,inv in pairs])); continue
    n+=1
    sgn=1 if p>0 else -1
    feats=[]
    zr=False; multi=False; share_def=False
    tot_ratio=0; ratios=[]
    for b,inv in pairs:
        pb=b.power_bounds
        if sgn>0:
            av=max(0.0,b.soc_upper_bound-b.soc); minp=max(pb.exclusion_upper,min(i.active_power_exclusion_upper_bound for i in inv))
        else:
            av=max(0.0,b.soc-b.soc_lower_bound); minp=max(-pb.exclusion_lower,min(-i.active_power_exclusion_lower_bound for i in inv))
        ratios.append((av,minp,len(inv)))
        if av<=1e-9 and minp>0: zr=True
        if len(inv)>1: multi=True
    if all(a<=1e-9 for a,_,_ in ratios): feats.append('allzero')
    if zr: feats.append('zero-headroom-with-minpower')
    if multi: feats.append('multi-inv')
    if any(m>0 for _,m,_ in ratios): feats.append('some-minpower')
    fkey=tuple(feats)
    s=sum(r.distribution.values())+r.remaining_power
    sg=1 if p>0 else -1
    if not math.isclose(s,p,rel_tol=1e-6,abs_tol=1e-6):
        bad_sum+=1; ex.setdefault('sum',(p,exp,r,pairs)); feat_tab.setdefault(('sum',fkey),[0,(p,exp,r,pairs)])[0]+=1
    if any(v*sg< -1e-9 for v in r.distribution.values()): bad_sign+=1; ex.setdefault('sign',(p,exp,r,pairs))
    if r.remaining_power*sg < -1e-6 or abs(r.remaining_power)>abs(p)+1e-6: bad_rem+=1; ex.setdefault('rem',(p,exp,r,pairs))
    # C02 per inverter
    for b,inv in pairs:
        tot=0
        for i in inv:
            v=r.distribution[i.component_id]; tot+=v
            if abs(v)<1e-9: continue
            if not (i.active_power_inclusion_lower_bound-1e-6<=v<=i.active_power_inclusion_upper_bound+1e-6) or (i.active_power_exclusion_lower_bound+1e-6< v <i.active_power_exclusion_upper_bound-1e-6):
                bad_bounds+=1; ex.setdefault('invbounds',(p,exp,r,pairs)); feat_tab.setdefault(('invb',fkey),[0,(p,exp,r,pairs)])[0]+=1; break
        if abs(tot)>1e-9:
            pb=b.power_bounds
            if not (pb.inclusion_lower-1e-6<=tot<=pb.inclusion_upper+1e-6) or (pb.exclusion_lower+1e-6<tot<pb.exclusion_upper-1e-6):
                bad_bounds+=1; ex.setdefault('batbounds',(p,exp,r,pairs)); feat_tab.setdefault(('batb',fkey),[0,(p,exp,r,pairs)])[0]+=1
def show(v):
    p,exp,r,pairs=v
    out=[f' p={p} exp={exp} {r}']
    for b,inv in pairs:
        out.append(f'  bat {b.component_id} soc={b.soc:.1f} [{b.soc_lower_bound:.0f},{b.soc_upper_bound:.0f}] cap={b.capacity} {b.power_bounds}')
        for i in inv: out.append(f'     inv {i.component_id} {i.active_power_inclusion_lower_bound} {i.active_power_exclusion_lower_bound} {i.active_power_exclusion_upper_bound} {i.active_power_inclusion_upper_bound}')
    return chr(10).join(out)
for k,(c,v) in sorted(feat_tab.items(),key=lambda kv:-kv[1][0]): print(k,c); print(show(v))
print(n,'sum',bad_sum,'sign',bad_sign,'rem',bad_rem,'bounds',bad_bounds,'exc',exc)
for k,v in []:
    print('==',k); 
    if k in('sum','sign','rem','invbounds','batbounds'):
        p,exp,r,pairs=v
        print(' p',p,'exp',exp,r)
        for b,inv in pairs:
            print('  bat',b.component_id,b.soc,b.soc_lower_bound,b.soc_upper_bound,b.capacity,b.power_bounds)
            for i in inv: print('     inv',i.component_id,i.active_power_inclusion_lower_bound,i.active_power_exclusion_lower_bound,i.active_power_exclusion_upper_bound,i.active_power_inclusion_upper_bound)
    else: print(v)
