import asyncio, random, sys, logging
sys.path.insert(0,'/tmp/probe'); sys.path.insert(0,'/repo')
from vloop import run_virtual, EPOCH
from datetime import timedelta
from frequenz.channels import Broadcast
from frequenz.client.microgrid import Component, ComponentCategory, Connection, ComponentMetricId, InverterType
from frequenz.quantities import Quantity
from frequenz.sdk._internal._channels import ChannelRegistry
from frequenz.sdk.microgrid import connection_manager
from frequenz.sdk.microgrid._data_sourcing import DataSourcingActor, ComponentMetricRequest
from frequenz.sdk.timeseries import Sample
from tests.utils.component_data_wrapper import MeterDataWrapper, InverterDataWrapper, BatteryDataWrapper
logging.disable(logging.CRITICAL)
stats={}
def note(k,ex): stats.setdefault(k,[0,ex])[0]+=1
METRICS={'meter':[ComponentMetricId.ACTIVE_POWER,ComponentMetricId.VOLTAGE_PHASE_1,ComponentMetricId.FREQUENCY,ComponentMetricId.CURRENT_PHASE_2],
         'inverter':[ComponentMetricId.ACTIVE_POWER,ComponentMetricId.ACTIVE_POWER_INCLUSION_LOWER_BOUND,ComponentMetricId.FREQUENCY],
         'battery':[ComponentMetricId.SOC,ComponentMetricId.CAPACITY,ComponentMetricId.POWER_INCLUSION_UPPER_BOUND]}
def mkmsg(kind,cid,n):
    ts=EPOCH+timedelta(seconds=n)
    if kind=='meter': return MeterDataWrapper(cid,ts,active_power=n+0.1,voltage_per_phase=(n+0.2,0,0),frequency=n+0.3,current_per_phase=(0,n+0.4,0))
    if kind=='inverter': return InverterDataWrapper(cid,ts,active_power=n+0.1,active_power_inclusion_lower_bound=n+0.2,frequency=n+0.3)
    return BatteryDataWrapper(cid,ts,soc=n+0.1,capacity=n+0.2,power_inclusion_upper_bound=n+0.3)
OFF={'meter':{ComponentMetricId.ACTIVE_POWER:0.1,ComponentMetricId.VOLTAGE_PHASE_1:0.2,ComponentMetricId.FREQUENCY:0.3,ComponentMetricId.CURRENT_PHASE_2:0.4},
     'inverter':{ComponentMetricId.ACTIVE_POWER:0.1,ComponentMetricId.ACTIVE_POWER_INCLUSION_LOWER_BOUND:0.2,ComponentMetricId.FREQUENCY:0.3},
     'battery':{ComponentMetricId.SOC:0.1,ComponentMetricId.CAPACITY:0.2,ComponentMetricId.POWER_INCLUSION_UPPER_BOUND:0.3}}
def one(seed):
    rng=random.Random(seed)
    kind=rng.choice(['meter','inverter','battery']); cid=7
    cat={'meter':ComponentCategory.METER,'inverter':ComponentCategory.INVERTER,'battery':ComponentCategory.BATTERY}[kind]
    comps=[Component(1,ComponentCategory.GRID),Component(cid,cat,InverterType.BATTERY if kind=='inverter' else None)]
    datach=Broadcast(name='data')
    class Api:
        async def components(s): return comps
        async def meter_data(s,i,maxsize=0): return datach.new_receiver(limit=500)
        inverter_data=battery_data=ev_charger_data=meter_data
    class CM: api_client=Api(); component_graph=None
    connection_manager._CONNECTION_MANAGER=CM()
    nmsg=rng.randint(10,40)
    subs=[]  # (at_msg_index, namespace, metric)
    allm=METRICS[kind]
    for _ in range(rng.randint(1,7)):
        subs.append((rng.randint(0,nmsg-3),rng.choice(['a','b']),rng.choice(allm)))
    subs.sort(key=lambda x:x[0])
    recvd={}
    async def main():
        reg=ChannelRegistry(name='reg'); reqc=Broadcast[ComponentMetricRequest](name='req')
        actor=DataSourcingActor(reqc.new_receiver(limit=100),reg); actor.start()
        rtx=reqc.new_sender(); dtx=datach.new_sender()
        await asyncio.sleep(0)
        sub_at={}
        si=0
        for n in range(nmsg):
            while si<len(subs) and subs[si][0]==n:
                _,ns,m=subs[si]; req=ComponentMetricRequest(ns,cid,m,None); name=req.get_channel_name()
                if name not in recvd:
                    rx=reg.get_or_create(Sample[Quantity],name).new_receiver(limit=500); recvd[name]=(rx,m,n)
                await rtx.send(req)
                if rng.random()<0.3: await rtx.send(req)  # duplicate
                if rng.random()<0.2: await rtx.send(ComponentMetricRequest(ns,999,m,None))  # unknown
                for _ in range(rng.choice([0,0,1,3,20])): await asyncio.sleep(0)
                si+=1
            await dtx.send(mkmsg(kind,cid,n))
            for _ in range(rng.choice([0,0,1,2,10])): await asyncio.sleep(0)
            if rng.random()<0.2: await asyncio.sleep(0.1)
        await asyncio.sleep(1)
        await actor.stop()
    run_virtual(main)
    for name,(rx,m,n0) in recvd.items():
        got=[]
        while rx._q: s=rx._q.popleft(); got.append(s)
        idx=[round((s.timestamp-EPOCH).total_seconds()) for s in got]
        if not idx: note('empty-stream',(seed,name,n0,nmsg)); continue
        if idx!=list(range(idx[0],idx[0]+len(idx))): note('HOLE-OR-DUP',(seed,name,idx,subs))
        if idx[-1]!=nmsg-1: note('tail-missing',(seed,name,idx,nmsg))
        if idx[0]>n0+1: note('late-start',(seed,name,idx[0],n0))
        for s,i in zip(got,idx):
            if abs(s.value.base_value-(i+OFF[kind][m]))>1e-9: note('wrong-value',(seed,name,i,s.value.base_value)); break
        note('streams',None)
for s in range(int(sys.argv[1]),int(sys.argv[2])):
    try: one(s)
    except Exception as e:
        import traceback; note('harness-exc '+type(e).__name__+str(e)[:60],(s,traceback.format_exc()[-700:]))
for k,(n,ex) in sorted(stats.items()): print(k,n,'\n   ',str(ex)[:900])
