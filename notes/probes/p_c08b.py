import asyncio, random, sys, math, logging
sys.path.insert(0,'/tmp/probe')
from vloop import run_virtual, EPOCH
from datetime import datetime, timezone, timedelta
from frequenz.channels import Broadcast
from frequenz.quantities import Quantity
from frequenz.sdk.timeseries import Sample
from frequenz.sdk.timeseries._resampling import Resampler, ResamplerConfig
logging.disable(logging.CRITICAL)
stats={}
def note(k,ex): stats.setdefault(k,[0,ex])[0]+=1
def one(seed):
    rng=random.Random(seed)
    period=rng.choice([1.0,2.0,0.5]); age=rng.choice([1.0,1.5,3.0]); init=rng.choice([1,2,16]); maxlen=rng.choice([init+1,32])
    offset=rng.choice([0.0,0.3,0.999999,period/2])
    calls=[]
    def fn(samples,conf,props):
        calls.append((list(samples),props.sampling_period)); return float(len(calls))
    async def main():
        cfg=ResamplerConfig(resampling_period=timedelta(seconds=period),max_data_age_in_periods=age,resampling_function=fn,initial_buffer_len=init,warn_buffer_len=max(1,maxlen-1),max_buffer_len=maxlen)
        created=datetime.now(timezone.utc)
        r=Resampler(cfg)
        nser=rng.randint(1,3)
        chans=[Broadcast[Sample[Quantity]](name=f's{i}') for i in range(nser)]
        sinks=[[] for _ in range(nser)]
        arrivals=[[] for _ in range(nser)]
        srcs=[]
        for i,c in enumerate(chans):
            rx=c.new_receiver(limit=1000); srcs.append(rx)
            async def sink(s,i=i,rx=rx): sinks[i].append((s,datetime.now(timezone.utc),len(calls),r._resamplers[rx]._helper._buffer.maxlen,r.get_source_properties(rx).sampling_period))
            r.add_timeseries(f's{i}',rx,sink)
        task=asyncio.create_task(r.resample())
        senders=[c.new_sender() for c in chans]
        # producer: irregular sending
        uid=[0]
        async def prod(i):
            ip=rng.choice([0.1,0.3,1.0,2.5])*period
            t=0.0
            while t<period*14:
                d=ip*rng.choice([1,1,1,0.2,3,6]) + 0.0137
                await asyncio.sleep(d); t+=d
                now=datetime.now(timezone.utc)
                kind=rng.random()
                # timestamp: now, slightly past, slightly future, exactly on next/prev tick grid
                ts=now+timedelta(seconds=rng.choice([0,0,-0.2*period,0.4*period,1.3*period]))
                if ts <= (arrivals[i][-1][0].timestamp if arrivals[i] else EPOCH-timedelta(days=1)): ts=arrivals[i][-1][0].timestamp+timedelta(microseconds=1)
                if rng.random()<0.15:
                    # snap to tick grid (epoch aligned)
                    k=math.ceil((ts-EPOCH).total_seconds()/period); ts2=EPOCH+timedelta(seconds=k*period)
                    if not arrivals[i] or ts2>arrivals[i][-1][0].timestamp: ts=ts2
                uid[0]+=1
                v=rng.choice([None,float('nan')]) if kind<0.15 else float(uid[0])
                s=Sample(ts,None if v is None else Quantity(v))
                valid = v is not None and v==v
                await senders[i].send(s)
                await asyncio.sleep(0); await asyncio.sleep(0)
                if valid: arrivals[i].append((s,now))
        prods=[asyncio.create_task(prod(i)) for i in range(nser)]
        await asyncio.gather(*prods)
        await asyncio.sleep(period*4)
        task.cancel()
        return created,sinks,arrivals,r,srcs,calls,(period,age,init,maxlen)
    created,sinks,arrivals,r,srcs,calls,cfgt=run_virtual(main,start_offset=offset)
    # C07 checks
    for i,sk in enumerate(sinks):
        tss=[x[0].timestamp for x in sk]
        if not tss: note('no-output',seed); return
        ks=[(t-EPOCH).total_seconds()/period for t in tss]
        if any(abs(k-round(k))>1e-9 for k in ks): note('C07-unaligned',(seed,ks[:5]))
        if [round(k) for k in ks]!=list(range(round(ks[0]),round(ks[0])+len(ks))): note('C07-gap',(seed,ks))
        if not (created<=tss[0]<=created+timedelta(seconds=2*period)): note('C07-first',(seed,created,tss[0]))
        if i>0 and tss!=[x[0].timestamp for x in sinks[0]]: note('C07-not-shared',seed)
    from collections import deque
    for i,sk in enumerate(sinks):
        model=deque(maxlen=init); ai=0; arr=arrivals[i]
        for (smp,tnow,ncalls,cap,sp) in sk:
            T=smp.timestamp
            tie=False
            while ai<len(arr) and arr[ai][1]<=tnow:
                if arr[ai][1]==tnow: tie=True
                model.append(arr[ai][0]); ai+=1
            if cap!=model.maxlen: model=deque(model,maxlen=cap)
            if not (1<=cap<=maxlen): note('C08-cap-range',(seed,cap))
            P=max(timedelta(seconds=period), sp) if sp is not None else timedelta(seconds=period)
            lo=T-P*age
            exp=[x for x in model if lo<x.timestamp<=T]
            if tie: note('tie-skipped',None); continue
            if smp.value is None:
                if exp: note('C08-none-but-nonempty',(seed,i,T,[x.value for x in exp]))
                else: note('tick-ok-empty',None)
            else:
                got,gsp=calls[ncalls-1]
                if smp.value.base_value!=float(ncalls): note('C08-call-map',(seed,))
                if [x.value.base_value for x in got]!=[x.value.base_value for x in exp]:
                    note('C08-seq-mismatch',(seed,i,str(T),[x.value.base_value for x in got],[x.value.base_value for x in exp],cap,str(sp)))
                else: note('tick-ok',None)
                if any(x.timestamp>T for x in got): note('C08-future',seed)
    return
for s in range(int(sys.argv[1]),int(sys.argv[2])):
    try: one(s)
    except Exception as e:
        import traceback; note('harness-exc '+type(e).__name__+str(e)[:60],(s,traceback.format_exc()[-500:]))
for k,(n,ex) in sorted(stats.items()): print(k,n,'\n   ',str(ex)[:600])
