import asyncio, logging
from datetime import datetime, timezone, timedelta
from frequenz.channels import Broadcast
from frequenz.quantities import Quantity
from frequenz.sdk.timeseries import Sample
from frequenz.sdk.timeseries.formula_engine._formula_engine import FormulaEngine
T0=datetime(2024,1,1,tzinfo=timezone.utc)
async def case(name, build, rows):
    ca=Broadcast[Sample[Quantity]](name='a'); cb=Broadcast[Sample[Quantity]](name='b')
    ea=FormulaEngine.from_receiver('a',ca.new_receiver(),Quantity); eb=FormulaEngine.from_receiver('b',cb.new_receiver(),Quantity)
    eng=build(ea,eb).build(name); rx=eng.new_receiver()
    sa,sb=ca.new_sender(),cb.new_sender(); out=[]
    await asyncio.sleep(0.01)
    for k,(a,b) in enumerate(rows):
        ts=T0+timedelta(seconds=k)
        await sa.send(Sample(ts,None if a is None else Quantity(a))); await sb.send(Sample(ts,None if b is None else Quantity(b)))
    await asyncio.sleep(0.05)
    while rx._q: s=rx._q.popleft(); out.append(((s.timestamp-T0).seconds, None if s.value is None else s.value.base_value))
    print(name,str(eng),out); await eng._stop()
async def main():
    rows=[(1.0,2.0),(None,2.0),(1.0,None),(3.0,0.0),(5.0,6.0)]
    await case('max',lambda a,b:a.max(b),rows)
    await case('min',lambda a,b:a.min(b),rows)
    await case('div',lambda a,b:a/b,rows)
logging.disable(logging.CRITICAL)
asyncio.run(main())
