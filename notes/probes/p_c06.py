import asyncio, random, sys, logging
from datetime import datetime, timezone, timedelta
from frequenz.channels import Broadcast
from frequenz.quantities import Quantity
from frequenz.sdk.timeseries import Sample
from frequenz.sdk.timeseries.formula_engine._formula_engine import FormulaBuilder
logging.disable(logging.CRITICAL)
T0=datetime(2024,1,1,tzinfo=timezone.utc); B=1000
stats={}
def note(k,ex): stats.setdefault(k,[0,ex])[0]+=1
async def one(seed):
    rng=random.Random(seed)
    n=rng.randint(1,4); first=[rng.randint(0,5) for _ in range(n)]; N=rng.randint(15,40)
    chans=[Broadcast[Sample[Quantity]](name=f'c{i}') for i in range(n)]
    b=FormulaBuilder('t',Quantity)
    for i in range(n):
        if i: b.push_oper('+')
        b.push_metric(f'#{i}',chans[i].new_receiver(limit=50),nones_are_zeros=False)
    eng=b.build()
    senders=[c.new_sender() for c in chans]
    nxt=list(first); outs=[]
    rx=None
    start_reader_at=rng.choice([0,0,3,10])
    steps=0
    consumed_est=lambda: len(outs)+ (len(rx._q) if rx else 0)
    while min(nxt)<N:
        if rx is None and steps>=start_reader_at: rx=eng.new_receiver(max_size=1000)
        steps+=1
        # choose a stream whose backlog < 40 relative to slowest progress
        cand=[i for i in range(n) if nxt[i]<N and nxt[i]-min(nxt)<40]
        i=rng.choice(cand)
        burst=rng.choice([1,1,1,5,20])
        for _ in range(burst):
            if nxt[i]>=N or nxt[i]-min(nxt)>=40: break
            k=nxt[i]; await senders[i].send(Sample(T0+timedelta(seconds=k),Quantity(float((k+1)*B**i)))); nxt[i]+=1
        for _ in range(rng.choice([0,0,1,5])): await asyncio.sleep(0)
    if rx is None: rx=eng.new_receiver(max_size=1000)
    for _ in range(300): await asyncio.sleep(0)
    while rx._q: outs.append(rx._q.popleft())
    await eng._stop()
    ks=[]
    for o in outs:
        T=round((o.timestamp-T0).total_seconds())
        if o.value is None: note('none-value',(seed,T)); continue
        v=round(o.value.base_value); dec=[]
        for i in range(n): dec.append(v//(B**i)%B-1)
        if any(d!=T for d in dec): note('MIXED-TIMESTAMPS',(seed,T,dec,first)); break
        ks.append(T)
    if ks:
        if ks!=list(range(ks[0],ks[0]+len(ks))): note('SKIP-OR-REPEAT',(seed,ks,first))
        if start_reader_at==0 and ks[0]!=max(first): note('first-output-not-alignment-point',(seed,ks[0],first))
        if ks[-1]!=N-1: note('tail',(seed,ks[-1],N))
        note('ok-runs',None)
    else: note('no-output',(seed,first,N))
async def main():
    for s in range(int(sys.argv[1]),int(sys.argv[2])):
        try: await asyncio.wait_for(one(s),20)
        except Exception as e:
            import traceback; note('harness-exc '+type(e).__name__+str(e)[:60],(s,traceback.format_exc()[-500:]))
    for k,(n,ex) in sorted(stats.items()): print(k,n,'\n   ',str(ex)[:600])
asyncio.run(main())
