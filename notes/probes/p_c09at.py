import asyncio, logging
from datetime import datetime, timedelta, timezone
import numpy as np
from frequenz.channels import Broadcast
from frequenz.quantities import Quantity
from frequenz.sdk.timeseries import Sample, MovingWindow
logging.disable(logging.CRITICAL)
E=datetime(2024,1,1,tzinfo=timezone.utc)
async def main():
    ch=Broadcast[Sample[Quantity]](name='c'); tx=ch.new_sender()
    async with MovingWindow(size=timedelta(seconds=5),resampled_data_recv=ch.new_receiver(),input_sampling_period=timedelta(seconds=1),align_to=E) as w:
        async def put(k,v): await tx.send(Sample(E+timedelta(seconds=k),None if v is None else Quantity(v))); await asyncio.sleep(0)
        for k in range(0,5): await put(k,100.0+k)          # slots 0..4 = 100..104
        await asyncio.sleep(0.01)
        print('full',list(w.window(None,None)),'covered',w.count_covered(),'valid',w.count_valid())
        for i in (0,4,5,-1,-5,-6):
            try: print(' at',i,'->',w.at(i))
            except Exception as e: print(' at',i,'raises',type(e).__name__)
        await put(8,108.0)   # jump: window now slots 4..8 ; 5,6,7 never written (hold evicted 100,101,102)
        await asyncio.sleep(0.01)
        print('after jump window',list(w.window(None,None)),'covered',w.count_covered(),'valid',w.count_valid(),'oldest',w.oldest_timestamp,'newest',w.newest_timestamp)
        for i in (0,1,2,3,4,5,-1,-2,-5):
            try: print(' at',i,'->',w.at(i))
            except Exception as e: print(' at',i,'raises',type(e).__name__)
        for k in (5,6,7):
            try: print(' at ts',k,'->',w.at(E+timedelta(seconds=k)))
            except Exception as e: print(' at ts',k,'raises',type(e).__name__)
asyncio.run(main())
