import random, sys, types, logging
sys.path.insert(0,'/repo')
from datetime import datetime, timezone
from frequenz.client.microgrid import Component, ComponentCategory, Connection, InverterType, ComponentMetricId as M
from frequenz.quantities import Power
from frequenz.sdk.microgrid import connection_manager
from frequenz.sdk.microgrid.component_graph import _MicrogridComponentGraph
from frequenz.sdk.microgrid._power_distributing._component_managers._battery_manager import BatteryManager
from frequenz.sdk.microgrid._power_distributing._distribution_algorithm import AggregatedBatteryData, InvBatPair
from frequenz.sdk.microgrid._power_distributing.request import Request
from frequenz.sdk.microgrid._power_distributing.result import OutOfBounds
from frequenz.sdk.timeseries.battery_pool._metric_calculator import PowerBoundsCalculator
from frequenz.sdk.timeseries.battery_pool._component_metrics import ComponentMetricsData
from tests.utils.component_data_wrapper import BatteryDataWrapper, InverterDataWrapper
logging.disable(logging.CRITICAL)
TS=datetime(2024,1,1,tzinfo=timezone.utc)
rng=random.Random(int(sys.argv[1])); N=int(sys.argv[2]); st={}
def note(k,ex): st.setdefault(k,[0,ex])[0]+=1
for it in range(N):
    comps=[Component(1,ComponentCategory.GRID),Component(2,ComponentCategory.METER)]; conns=[Connection(1,2)]
    nid=2; groups=[]
    for g in range(rng.randint(1,3)):
        nb=rng.randint(1,2); ni=rng.randint(1,3); bats=[]; invs=[]
        for _ in range(ni):
            nid+=1; comps.append(Component(nid,ComponentCategory.INVERTER,InverterType.BATTERY)); conns.append(Connection(2,nid)); invs.append(nid)
        for _ in range(nb):
            nid+=1; comps.append(Component(nid,ComponentCategory.BATTERY)); bats.append(nid)
            for i in invs: conns.append(Connection(i,nid))
        groups.append((bats,invs))
    graph=_MicrogridComponentGraph(set(comps),set(conns))
    connection_manager._CONNECTION_MANAGER=types.SimpleNamespace(component_graph=graph,api_client=None)
    bd={}; idt={}
    def bnd():
        eu=rng.choice([0,0,50,100,300]); el=-rng.choice([0,0,50,100,300])
        return el-rng.choice([0,100,1000,5000]),el,eu,eu+rng.choice([0,100,1000,5000])
    metrics={}
    pairs=[]
    for bats,invs in groups:
        bl=[]
        for b in bats:
            il,el,eu,iu=bnd()
            bl.append(BatteryDataWrapper(b,TS,soc=50,soc_lower_bound=10,soc_upper_bound=90,capacity=1000,power_inclusion_lower_bound=il,power_exclusion_lower_bound=el,power_exclusion_upper_bound=eu,power_inclusion_upper_bound=iu))
            metrics[b]=ComponentMetricsData(b,TS,{M.POWER_INCLUSION_LOWER_BOUND:il,M.POWER_EXCLUSION_LOWER_BOUND:el,M.POWER_EXCLUSION_UPPER_BOUND:eu,M.POWER_INCLUSION_UPPER_BOUND:iu})
        ilist=[]
        for i in invs:
            il,el,eu,iu=bnd()
            ilist.append(InverterDataWrapper(i,TS,active_power_inclusion_lower_bound=il,active_power_exclusion_lower_bound=el,active_power_exclusion_upper_bound=eu,active_power_inclusion_upper_bound=iu))
            metrics[i]=ComponentMetricsData(i,TS,{M.ACTIVE_POWER_INCLUSION_LOWER_BOUND:il,M.ACTIVE_POWER_EXCLUSION_LOWER_BOUND:el,M.ACTIVE_POWER_EXCLUSION_UPPER_BOUND:eu,M.ACTIVE_POWER_INCLUSION_UPPER_BOUND:iu})
        pairs.append(InvBatPair(AggregatedBatteryData(bl),ilist))
    allb={b for bats,_ in groups for b in bats}
    calc=PowerBoundsCalculator(allb)
    sb=calc.calculate(metrics,set(allb))
    il,iu=sb.inclusion_bounds.lower.as_watts(),sb.inclusion_bounds.upper.as_watts(); el,eu=sb.exclusion_bounds.lower.as_watts(),sb.exclusion_bounds.upper.as_watts()
    stub=types.SimpleNamespace(_battery_caches={b:1 for b in allb},_get_bounds=lambda p: BatteryManager._get_bounds(None,p))
    mb=BatteryManager._get_bounds(None,pairs)
    if (mb.inclusion_lower,mb.inclusion_upper)!=(il,iu): note('inclusion-differs',((il,iu),mb))
    minsum_up=sum(max(p.battery.power_bounds.exclusion_upper,min(i.active_power_exclusion_upper_bound for i in p.inverter)) for p in pairs)
    minsum_lo=sum(min(p.battery.power_bounds.exclusion_lower,max(i.active_power_exclusion_lower_bound for i in p.inverter)) for p in pairs)
    if eu<minsum_up-1e-9 or el>minsum_lo+1e-9: note('adv-excl-below-min-powers',(el,eu,minsum_lo,minsum_up))
    for p in {il,iu,el,eu,il+1,iu-1,el-1,eu+1,il-1,iu+1,el+1,eu-1}:
        if abs(p)<1e-9: continue
        inside = il<=p<=iu and not (el<p<eu)
        for adj in (True,False):
            r=BatteryManager._check_request(stub,Request(power=Power.from_watts(p),component_ids=allb,adjust_power=adj),pairs)
            if inside and isinstance(r,OutOfBounds): note('REJECTED-INSIDE',(p,adj,(il,el,eu,iu),mb))
            note('checked',None)
for k,(n,ex) in sorted(st.items()): print(k,n,'\n   ',str(ex)[:500])
