#!/bin/bash
# Re-evaluate every kept seeded change of the given properties (one worker per property, each in its own scratch
# worktree of /repo's HEAD):   ./seedregress.sh C01 C07 ...     -> /tmp/work/regress-<ID>.log, summary on stdout
cd "$(dirname "$0")"
mkdir -p /tmp/work
one() {
  pid=$1
  wt=/tmp/work/$pid
  [ -d $wt ] || git -C /repo worktree add --detach $wt HEAD > /dev/null 2>&1
  git -C $wt checkout -q -- . ; git -C $wt checkout -q --detach $(git -C /repo rev-parse HEAD) 2>/dev/null
  : > /tmp/work/regress-$pid.log
  for d in seeded/$pid-*; do
    n=$(basename $d)
    VERIF_REPO=$wt /venv/bin/python -m vf.seedtest evaluate $n 2>&1 | tail -1 >> /tmp/work/regress-$pid.log
  done
  echo "$pid: $(grep -c CAUGHT /tmp/work/regress-$pid.log) caught, $(grep -vc CAUGHT /tmp/work/regress-$pid.log) other: $(grep -v CAUGHT /tmp/work/regress-$pid.log | tr '\n' ';')"
}
export -f one
printf "%s\n" "$@" | xargs -P 6 -I{} bash -c "one {}"
