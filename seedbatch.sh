#!/bin/bash
# Confirm and evaluate the changes of one seeding round in parallel, each in its own scratch worktree of /repo's HEAD.
#   ./seedbatch.sh <letter> <ID> [<ID> ...]      e.g.  ./seedbatch.sh W C04 C05
# (the checks of two changes of the SAME property are never run at the same time: one letter per call)
letter=$1; shift
cd "$(dirname "$0")"
mkdir -p /tmp/work
one() {
  pid=$1; letter=$2
  out=/tmp/work/$pid-$letter.log
  /venv/bin/python -m vf.seedtest confirm $pid $letter > $out 2>&1 || { echo "$pid-$letter NOT CONFIRMED (see $out)"; return; }
  wt=/tmp/work/$pid
  [ -d $wt ] || git -C /repo worktree add --detach $wt HEAD > /dev/null 2>&1
  git -C $wt checkout -q --detach $(git -C /repo rev-parse HEAD) 2>/dev/null
  VERIF_REPO=$wt /venv/bin/python -m vf.seedtest evaluate $pid-$letter >> $out 2>&1
  tail -1 $out
}
export -f one
printf "%s\n" "$@" | xargs -P 5 -I{} bash -c "one {} $letter"
